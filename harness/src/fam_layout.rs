//! Family `layout` (C20): every routine on several representations of the same logical array -
//! memory order, stepped / reversed / permuted views into a larger parent, ownership kinds
//! (owned, view, mutable view, ArcArray, CowArray) and static versus dynamic dimensionality.
//! One observation per (logical array, routine) lists the result on every representation.
use crate::util::*;
use crate::Params;
use ndarray::prelude::*;
use ndarray::{CowArray, Data, DataMut, RemoveAxis};
use ndarray_stats::histogram::strategies::{BinsBuildingStrategy, Sqrt};
use ndarray_stats::histogram::{Bins, Edges, Grid};
use ndarray_stats::interpolate::{Linear, Lower, Nearest};
use ndarray_stats::verif_hooks;
use ndarray_stats::{CorrelationExt, DeviationExt, EntropyExt, HistogramExt, MaybeNanExt, Quantile1dExt, QuantileExt, Sort1dExt, SummaryStatisticsExt};
use noisy_float::types::{n64, N64};
use serde_json::{json, Value};

const QE: i32 = 20;
fn qf(x: f64) -> i64 {
    if x.is_nan() { return 536870911; }
    let y = x * (2.0f64).powi(QE);
    if y.abs() > 5.3e8 { return if y > 0.0 { 536870900 } else { -536870900 }; }
    y.round() as i64
}

type Item = (&'static str, &'static str, Vec<i64>);   // routine, kind (exact | approx | argmin | argmax | sargmin | sargmax), projected result

fn idxv<P: ndarray::NdIndex<D>, D: Dimension>(_p: &P) -> Vec<i64> { vec![] }

/// Non-mutating routines on f64 data (x), a same-typed second operand (y) and 1-D weights (w1).
fn ro_f64<S, D>(x: &ArrayBase<S, D>, y: &ArrayBase<S, D>, w1: &ArrayBase<S, Ix1>, axis: usize, out: &mut Vec<Item>)
where S: Data<Elem = f64>, D: Dimension + RemoveAxis, D::Pattern: ndarray::NdIndex<D> {
    let _ = idxv::<D::Pattern, D>;
    let q1 = |r: Result<f64, _>| -> Vec<i64> { match r { Ok(v) => vec![qf(v)], Err::<f64, ndarray_stats::errors::EmptyInput>(_) => vec![-1, -1] } };
    let qm = |r: Result<f64, ndarray_stats::errors::MultiInputError>| -> Vec<i64> { match r { Ok(v) => vec![qf(v)], Err(_) => vec![-1, -1] } };
    out.push(("mean", "approx", q1(SummaryStatisticsExt::mean(x))));
    out.push(("harmonic_mean", "approx", q1(x.mapv(|v| v.abs() + 1.0).harmonic_mean())));
    out.push(("geometric_mean", "approx", q1(x.mapv(|v| v.abs() + 1.0).geometric_mean())));
    out.push(("central_moment3", "approx", q1(x.central_moment(3))));
    out.push(("central_moments4", "approx", match x.central_moments(4) { Ok(v) => v.iter().map(|&t| qf(t)).collect(), Err(_) => vec![-1] }));
    out.push(("skewness", "approx", q1(x.skewness())));
    out.push(("kurtosis", "approx", q1(x.kurtosis())));
    out.push(("entropy", "approx", q1(x.mapv(|v| v.abs() / 8.0).entropy())));
    out.push(("weighted_sum", "approx", qm(x.weighted_sum(y))));
    out.push(("weighted_mean", "approx", qm(x.weighted_mean(y))));
    out.push(("weighted_var", "approx", qm(x.weighted_var(y, 0.5))));
    out.push(("weighted_std", "approx", qm(x.weighted_std(y, 1.0))));
    let ax = |r: Result<Array<f64, D::Smaller>, ndarray_stats::errors::MultiInputError>| -> Vec<i64> { match r { Ok(v) => v.iter().map(|&t| qf(t)).collect(), Err(_) => vec![-1] } };
    out.push(("weighted_sum_axis", "approx", ax(x.weighted_sum_axis(Axis(axis), w1))));
    out.push(("weighted_mean_axis", "approx", ax(x.weighted_mean_axis(Axis(axis), w1))));
    out.push(("weighted_var_axis", "approx", ax(x.weighted_var_axis(Axis(axis), w1, 0.0))));
    out.push(("weighted_std_axis", "approx", ax(x.weighted_std_axis(Axis(axis), w1, 1.0))));
    let dv = |r: Result<f64, ndarray_stats::errors::MultiInputError>| -> Vec<i64> { match r { Ok(v) => vec![qf(v)], Err(_) => vec![-1, -1] } };
    out.push(("count_eq", "exact", match x.count_eq(y) { Ok(v) => vec![v as i64], Err(_) => vec![-1] }));
    out.push(("count_neq", "exact", match x.count_neq(y) { Ok(v) => vec![v as i64], Err(_) => vec![-1] }));
    out.push(("sq_l2_dist", "approx", dv(x.sq_l2_dist(y))));
    out.push(("l2_dist", "approx", dv(x.l2_dist(y))));
    out.push(("l1_dist", "approx", dv(x.l1_dist(y))));
    out.push(("linf_dist", "approx", dv(x.linf_dist(y))));
    out.push(("mean_abs_err", "approx", dv(x.mean_abs_err(y))));
    out.push(("mean_sq_err", "approx", dv(x.mean_sq_err(y))));
    out.push(("root_mean_sq_err", "approx", dv(x.root_mean_sq_err(y))));
    out.push(("peak_signal_to_noise_ratio", "approx", dv(x.peak_signal_to_noise_ratio(y, 4.0))));
    let (p, qd) = (x.mapv(|v| v.abs() / 8.0), y.mapv(|v| v.abs() / 8.0 + 0.125));
    out.push(("kl_divergence", "approx", dv(p.kl_divergence(&qd))));
    out.push(("cross_entropy", "approx", dv(p.cross_entropy(&qd))));
    // two non-finite terms of different kinds (a zero and a negative / an infinite element of q, at positions taken from the
    // logical contents): the sum is NaN in whatever order the terms are visited
    {
        let n = x.len();
        let (k1, k2) = ((x.iter().map(|v| if v.is_nan() { 1 } else { (v.abs() * 4.0) as usize }).sum::<usize>()) % n.max(1), (x.iter().take(3).map(|v| if v.is_nan() { 2 } else { (v.abs() * 4.0) as usize + 1 }).sum::<usize>() * 7 + 1) % n.max(1));
        if n >= 2 && k1 != k2 {
            let pp = x.mapv(|v| if v.is_nan() { 0.25 } else { v.abs() / 8.0 + 0.125 });
            for (name_kl, name_ce, bad) in [("kl_divergence_zero_and_negative_q", "cross_entropy_zero_and_negative_q", -0.25), ("kl_divergence_zero_and_infinite_q", "cross_entropy_zero_and_infinite_q", f64::INFINITY)] {
                let mut qq = y.mapv(|v| v.abs() / 8.0 + 0.125);
                for (t, e) in qq.iter_mut().enumerate() { if t == k1 { *e = 0.0; } else if t == k2 { *e = bad; } }
                out.push((name_kl, "exact", dv(pp.kl_divergence(&qq))));
                out.push((name_ce, "exact", dv(pp.cross_entropy(&qq))));
            }
        }
    }
    // extrema: value forms exact, index forms judged as "an extremal element of the logical array"
    let mm = |r: Result<&f64, ndarray_stats::errors::MinMaxError>| -> Vec<i64> { match r { Ok(v) => vec![qf(*v)], Err(_) => vec![-1, -1] } };
    out.push(("min", "exact", mm(x.min())));
    out.push(("max", "exact", mm(x.max())));
    out.push(("min_skipnan", "exact", vec![qf(*x.min_skipnan())]));
    out.push(("max_skipnan", "exact", vec![qf(*x.max_skipnan())]));
    out.push(("fold_skipnan_sum", "approx", vec![qf(x.fold_skipnan(0.0, |acc, v| acc + v.raw()))]));
    out.push(("fold_axis_skipnan_sum", "approx", x.fold_axis_skipnan(Axis(axis), 0.0, |acc, v| acc + v.raw()).iter().map(|&t| qf(t)).collect()));
    // an order-sensitive fold (exact on the quarter grid): the lane's elements are combined in logical order along the axis
    out.push(("fold_axis_skipnan_horner", "exact", x.fold_axis_skipnan(Axis(axis), 0.0, |acc, v| acc * 3.0 + v.raw()).iter().map(|&t| qf(t)).collect()));
    out.push(("fold_axis_skipnan_last", "exact", x.fold_axis_skipnan(Axis(axis), -99.0, |_, v| v.raw()).iter().map(|&t| qf(t)).collect()));
}

/// Index-returning routines need the pattern converted to a Vec; done per concrete dimension type.
macro_rules! arg_items {
    ($x:expr, $out:expr, $conv:expr) => {{
        let conv = $conv;
        $out.push(("argmin", "argmin", match $x.argmin() { Ok(p) => conv(p), Err(_) => vec![-1] }));
        $out.push(("argmax", "argmax", match $x.argmax() { Ok(p) => conv(p), Err(_) => vec![-1] }));
        $out.push(("argmin_skipnan", "sargmin", match $x.argmin_skipnan() { Ok(p) => conv(p), Err(_) => vec![-1] }));
        $out.push(("argmax_skipnan", "sargmax", match $x.argmax_skipnan() { Ok(p) => conv(p), Err(_) => vec![-1] }));
    }};
}

/// Mutating order-statistics routines on i64 data; every call gets a freshly built representation.
fn mut_i64<S, D>(mk: &mut dyn FnMut() -> ArrayBase<S, D>, axis: usize, out: &mut Vec<Item>)
where S: DataMut<Elem = i64>, D: Dimension + RemoveAxis {
    let qs = array![n64(0.0), n64(0.35), n64(0.5), n64(1.0), n64(0.35)];
    let flat = |r: Result<Array<i64, D>, ndarray_stats::errors::QuantileError>| -> Vec<i64> { match r { Ok(v) => v.iter().cloned().collect(), Err(_) => vec![-1] } };
    let flats = |r: Result<Array<i64, D::Smaller>, ndarray_stats::errors::QuantileError>| -> Vec<i64> { match r { Ok(v) => v.iter().cloned().collect(), Err(_) => vec![-1] } };
    verif_hooks::set_script(vec![], verif_hooks::Fallback::Drawn);
    out.push(("quantiles_axis_mut_lower", "exact", flat(mk().quantiles_axis_mut(Axis(axis), &qs, &Lower))));
    out.push(("quantiles_axis_mut_linear", "exact", flat(mk().quantiles_axis_mut(Axis(axis), &qs, &Linear))));
    out.push(("quantile_axis_mut_nearest", "exact", flats(mk().quantile_axis_mut(Axis(axis), n64(0.62), &Nearest))));
    // an invalid request list, here handed over as a reversed view of a buffer holding it back to front: the reported
    // offending quantile is the first one in logical order whatever the representation of data or request
    let back = array![n64(-0.5), n64(1.5), n64(0.25)];
    let rq = back.slice(ndarray::s![..;-1]);
    out.push(("quantiles_axis_mut_invalid_request", "exact", match mk().quantiles_axis_mut(Axis(axis), &rq, &Lower) {
        Err(ndarray_stats::errors::QuantileError::InvalidQuantile(q)) => vec![(q.raw() * 4.0) as i64], Err(_) => vec![-1], Ok(_) => vec![100] }));
    verif_hooks::take_log();
}

fn mut_i64_1d<S>(mk: &mut dyn FnMut() -> ArrayBase<S, Ix1>, out: &mut Vec<Item>) where S: DataMut<Elem = i64> {
    let n = mk().len();
    // Edges built from an owned copy-free array of this representation (only its logical elements count)
    out.push(("Edges::from_array1", "exact", { let e = Edges::from(mk().into_owned()); e.iter().cloned().collect() }));
    // bin-building strategies on this representation (the quartile-based ones work on a copy of the data)
    {
        let a = mk();
        let strat = |r: Result<(usize, Bins<i64>), ()>| -> Vec<i64> { match r { Ok((nb, bins)) => { let mut v = vec![nb as i64]; for i in 0..bins.len() { v.push(bins.index(i).start); } v } Err(()) => vec![-1] } };
        out.push(("FreedmanDiaconis::from_array", "exact", strat(ndarray_stats::histogram::strategies::FreedmanDiaconis::from_array(&a).map(|b| (b.n_bins(), b.build())).map_err(|_| ()))));
        out.push(("Auto::from_array", "exact", strat(ndarray_stats::histogram::strategies::Auto::from_array(&a).map(|b| (b.n_bins(), b.build())).map_err(|_| ()))));
        out.push(("Sturges::from_array", "exact", strat(ndarray_stats::histogram::strategies::Sturges::from_array(&a).map(|b| (b.n_bins(), b.build())).map_err(|_| ()))));
    }
    if n == 0 { return; }
    out.push(("get_from_sorted_mut", "exact", vec![mk().get_from_sorted_mut(n / 2)]));
    let idx = array![0usize, n - 1, n / 2, n / 3];
    out.push(("get_many_from_sorted_mut", "exact", mk().get_many_from_sorted_mut(&idx).into_iter().flat_map(|(k, v)| vec![k as i64, v]).collect()));
    out.push(("quantile_mut", "exact", match mk().quantile_mut(n64(0.4), &Linear) { Ok(v) => vec![v], Err(_) => vec![-1] }));
    out.push(("quantiles_mut", "exact", match mk().quantiles_mut(&array![n64(0.9), n64(0.1)], &Lower) { Ok(v) => v.to_vec(), Err(_) => vec![-1] }));
    let mut a = mk();
    let k = a.partition_mut(n / 2);
    out.push(("partition_mut", "exact", vec![k as i64, a[k]]));
}

fn skipnan_quant<S, D>(mk: &mut dyn FnMut() -> ArrayBase<S, D>, axis: usize, out: &mut Vec<Item>)
where S: DataMut<Elem = f64>, D: Dimension + RemoveAxis {
    let r = mk().quantile_axis_skipnan_mut(Axis(axis), n64(0.5), &Lower);
    out.push(("quantile_axis_skipnan_mut", "exact", match r { Ok(v) => v.iter().map(|&t| qf(t)).collect(), Err(_) => vec![-1] }));
    let mut a = mk();
    let r = a.map_axis_skipnan_mut(Axis(axis), |lane| lane.iter().map(|v| v.raw()).fold(0.0, |s, v| s + v));
    out.push(("map_axis_skipnan_mut_sum", "approx", r.iter().map(|&t| qf(t)).collect()));
}

fn two_d<S>(x: &ArrayBase<S, Ix2>, xn: &ArrayBase<impl Data<Elem = N64>, Ix2>, out: &mut Vec<Item>) where S: Data<Elem = f64> {
    out.push(("cov", "approx", match guarded(|| x.cov(1.0)) { Ok(Ok(v)) => v.iter().map(|&t| qf(t)).collect(), _ => vec![-1] }));
    out.push(("pearson_correlation", "approx", match guarded(|| x.pearson_correlation()) { Ok(Ok(v)) => v.iter().map(|&t| qf(t)).collect(), _ => vec![-1] }));
    // histogram of the rows over a fixed grid; grid built by a strategy from the first column
    let d = xn.ncols();
    let edges: Vec<N64> = (-3..=3).map(|k| n64(k as f64 * 1.5)).collect();
    let grid = Grid::from((0..d).map(|_| Bins::new(Edges::from(edges.clone()))).collect::<Vec<_>>());
    out.push(("histogram", "exact", xn.histogram(grid).counts().iter().map(|&c| c as i64).collect()));
    if xn.nrows() > 0 && d > 0 {
        let col = xn.column(0);
        out.push(("Sqrt::from_array", "exact", match Sqrt::from_array(&col) { Ok(b) => { let bins = b.build(); let mut v = vec![b.n_bins() as i64]; for i in 0..bins.len() { v.push(qf(bins.index(i).start.raw())); } v } Err(_) => vec![-1] }));
    }
}

struct Rep { name: String, lay: Lay, kind: &'static str, stat: bool }

pub fn run(case: &Value, _params: &Params, out: &mut Vec<Value>) {
    let given = Lay::from_json(&case["lay"]);
    let shape = given.shape();
    let nd = shape.len();
    let n: usize = shape.iter().product();
    let seed = case.get("seed").and_then(|x| x.as_u64()).unwrap_or(n as u64 * 31 + nd as u64);
    let mut rng = Rng(seed);
    let nanp = case.get("nan").and_then(|x| x.as_bool()).unwrap_or(false);
    // logical contents: quarter-grid floats (a few NaN when requested), small ints, and ranks for the index routines
    let xi: Vec<i64> = (0..n).map(|_| rng.range(-12, 12)).collect();
    let yi: Vec<i64> = (0..n).map(|_| rng.range(0, 4)).collect();
    let nan_at: Vec<bool> = (0..n).map(|_| nanp && rng.chance(1, 5)).collect();
    let xf: Vec<f64> = xi.iter().zip(&nan_at).map(|(&v, &m)| if m { nan64() } else { v as f64 / 4.0 }).collect();
    let yf: Vec<f64> = yi.iter().map(|&v| v as f64 / 4.0).collect();
    let axis = rng.below(nd.max(1) as u64) as usize;
    let wl = if nd == 0 { 0 } else { shape[axis] };
    // 1-D weights 0, 1, 2 (a zero weight may come first) with a positive total
    let wc = rng.below(3) as usize;
    let mut w1: Vec<f64> = (0..wl).map(|k| ((k + wc) % 3) as f64).collect();
    if wl > 0 && w1.iter().all(|&v| v == 0.0) { w1[wl - 1] = 2.0; }
    let other = random_lay(&mut rng, &shape, true);
    let reps = vec![
        Rep { name: "C/owned/dyn".into(), lay: Lay::plain(&shape, false), kind: "owned", stat: false },
        Rep { name: "F/owned/static".into(), lay: Lay::plain(&shape, true), kind: "owned", stat: true },
        Rep { name: "given/view/dyn".into(), lay: given.clone(), kind: "view", stat: false },
        Rep { name: "given/owned/static".into(), lay: given.clone(), kind: "owned", stat: true },
        Rep { name: "given/viewmut/dyn".into(), lay: given.clone(), kind: "viewmut", stat: false },
        Rep { name: "other/arc/dyn".into(), lay: other.clone(), kind: "arc", stat: false },
        Rep { name: "other/cow/static".into(), lay: other.clone(), kind: "cow", stat: true },
    ];
    // results[routine] = (kind, Vec<(rep, values)>)
    let mut table: Vec<(String, String, Vec<Value>)> = Vec::new();
    let mut add = |rep: &str, items: Vec<Item>, table: &mut Vec<(String, String, Vec<Value>)>| {
        for (r, k, v) in items {
            match table.iter_mut().find(|t| t.0 == r) {
                Some(t) => t.2.push(json!({"rep": rep, "v": v})),
                None => table.push((r.to_string(), k.to_string(), vec![json!({"rep": rep, "v": v})])),
            }
        }
    };
    let w1lay = Lay::plain(&[wl], false);
    for rep in &reps {
        let mut items: Vec<Item> = Vec::new();
        let l = &rep.lay;
        // one macro arm per ownership kind; $go is generic code over the representation type
        macro_rules! per_kind {
            ($data:expr, $pad:expr, |$a:ident| $go:expr) => {
                match rep.kind {
                    "owned" => { let mut mk = || l.owned($data, $pad); let $a = &mut mk; $go }
                    "arc" => { let mut mk = || l.owned($data, $pad).into_shared(); let $a = &mut mk; $go }
                    _ => {}
                }
            };
        }
        let r = guarded(|| {
            let mut items: Vec<Item> = Vec::new();
            // ---- read-only float routines: owned / arc / view / cow ----
            {
                let (px, py, pw) = (l.build(&xf, |_| 9.75), l.build(&yf, |_| 8.5), w1lay.build(&w1, |_| 1.0));
                let wv = w1lay.view(&pw).into_dimensionality::<Ix1>().unwrap();
                macro_rules! ro { ($x:expr, $y:expr, $w:expr) => {{
                    let (x, y, w) = ($x, $y, $w);
                    if nd >= 1 { ro_f64(&x, &y, &w, axis, &mut items); arg_items!(x, items, |p: IxDyn| p.slice().iter().map(|&t| t as i64).collect::<Vec<i64>>()); }
                }}; }
                match rep.kind {
                    "view" | "viewmut" => ro!(l.view(&px), l.view(&py), wv.view()),
                    "owned" => ro!(l.owned(&xf, |_| 9.75), l.owned(&yf, |_| 8.5), wv.to_owned()),
                    "arc" => ro!(l.owned(&xf, |_| 9.75).into_shared(), l.owned(&yf, |_| 8.5).into_shared(), wv.to_owned().into_shared()),
                    _ => ro!(CowArray::from(l.view(&px)), CowArray::from(l.view(&py)), CowArray::from(wv.view())),
                }
                // static dimensionality: the same calls through Ix1 / Ix2 / Ix3
                if rep.stat {
                    let mut st_items: Vec<Item> = Vec::new();
                    macro_rules! stat_dim { ($ix:ty, $conv:expr) => {{
                        let x = l.owned(&xf, |_| 9.75).into_dimensionality::<$ix>().unwrap();
                        let y = l.owned(&yf, |_| 8.5).into_dimensionality::<$ix>().unwrap();
                        ro_f64(&x, &y, &wv.to_owned(), axis, &mut st_items);
                        arg_items!(x, st_items, $conv);
                    }}; }
                    match nd {
                        1 => stat_dim!(Ix1, |p: usize| vec![p as i64]),
                        2 => stat_dim!(Ix2, |p: (usize, usize)| vec![p.0 as i64, p.1 as i64]),
                        3 => stat_dim!(Ix3, |p: (usize, usize, usize)| vec![p.0 as i64, p.1 as i64, p.2 as i64]),
                        _ => {}
                    }
                    if !st_items.is_empty() { items = st_items; }
                }
            }
            // ---- mutating routines ----
            if nd >= 1 {
                let mut pxi = l.build(&xi, |_| 77);
                let mut pxf = l.build(&xf, |_| 9.75);
                if rep.kind == "view" || rep.kind == "viewmut" {
                    // mutable views into a freshly built parent, one per call
                    let qs = array![n64(0.0), n64(0.35), n64(0.5), n64(1.0), n64(0.35)];
                    let fl = |r: Result<ArrayD<i64>, ndarray_stats::errors::QuantileError>| -> Vec<i64> { match r { Ok(v) => v.iter().cloned().collect(), Err(_) => vec![-1] } };
                    { let mut p = l.build(&xi, |_| 77); items.push(("quantiles_axis_mut_lower", "exact", fl(l.view_mut(&mut p).quantiles_axis_mut(Axis(axis), &qs, &Lower)))); }
                    { let mut p = l.build(&xi, |_| 77); items.push(("quantiles_axis_mut_linear", "exact", fl(l.view_mut(&mut p).quantiles_axis_mut(Axis(axis), &qs, &Linear)))); }
                    { let mut p = l.build(&xi, |_| 77); items.push(("quantile_axis_mut_nearest", "exact", fl(l.view_mut(&mut p).quantile_axis_mut(Axis(axis), n64(0.62), &Nearest)))); }
                    { let mut p = l.build(&xi, |_| 77); let rq = array![n64(0.25), n64(1.5), n64(-0.5)];
                      items.push(("quantiles_axis_mut_invalid_request", "exact", match l.view_mut(&mut p).quantiles_axis_mut(Axis(axis), &rq, &Lower) {
                          Err(ndarray_stats::errors::QuantileError::InvalidQuantile(q)) => vec![(q.raw() * 4.0) as i64], Err(_) => vec![-1], Ok(_) => vec![100] })); }
                    { let mut p = l.build(&xf, |_| 9.75); let r = l.view_mut(&mut p).quantile_axis_skipnan_mut(Axis(axis), n64(0.5), &Lower);
                      items.push(("quantile_axis_skipnan_mut", "exact", match r { Ok(v) => v.iter().map(|&t| qf(t)).collect(), Err(_) => vec![-1] })); }
                    { let mut p = l.build(&xf, |_| 9.75); let mut v = l.view_mut(&mut p);
                      let r = v.map_axis_skipnan_mut(Axis(axis), |lane| lane.iter().map(|t| t.raw()).fold(0.0, |s, t| s + t));
                      items.push(("map_axis_skipnan_mut_sum", "approx", r.iter().map(|&t| qf(t)).collect())); }
                    let _ = (&mut pxi, &mut pxf);
                }
                per_kind!(&xi, |_| 77, |mk| mut_i64(mk, axis, &mut items));
                per_kind!(&xf, |_| 9.75, |mk| skipnan_quant(mk, axis, &mut items));
                if rep.kind == "cow" { let mut mk = || CowArray::from(l.owned(&xi, |_| 77)); mut_i64(&mut mk, axis, &mut items);
                                       let mut mk2 = || CowArray::from(l.owned(&xf, |_| 9.75)); skipnan_quant(&mut mk2, axis, &mut items); }
                if nd == 1 {
                    match rep.kind {
                        "arc" => { let mut mk = || l.owned(&xi, |_| 77).into_shared().into_dimensionality::<Ix1>().unwrap(); mut_i64_1d(&mut mk, &mut items); }
                        "cow" => { let mut mk = || CowArray::from(l.owned(&xi, |_| 77).into_dimensionality::<Ix1>().unwrap()); mut_i64_1d(&mut mk, &mut items); }
                        _ => { let mut mk = || l.owned(&xi, |_| 77).into_dimensionality::<Ix1>().unwrap(); mut_i64_1d(&mut mk, &mut items); }
                    }
                }
            }
            if nd == 2 {
                let xn: Vec<N64> = xi.iter().map(|&v| n64(v as f64 / 4.0)).collect();
                let xnn: Vec<f64> = xi.iter().map(|&v| v as f64 / 4.0).collect();
                let (pf, pn) = (l.build(&xnn, |_| 9.75), l.build(&xn, |_| n64(9.75)));
                let (vf, vn) = (l.view(&pf).into_dimensionality::<Ix2>().unwrap(), l.view(&pn).into_dimensionality::<Ix2>().unwrap());
                match rep.kind {
                    "owned" => two_d(&l.owned(&xnn, |_| 9.75).into_dimensionality::<Ix2>().unwrap(), &l.owned(&xn, |_| n64(9.75)).into_dimensionality::<Ix2>().unwrap(), &mut items),
                    "arc" => two_d(&vf.to_shared(), &vn.to_shared(), &mut items),
                    "cow" => two_d(&CowArray::from(vf.view()), &CowArray::from(vn.view()), &mut items),
                    _ => two_d(&vf, &vn, &mut items),
                }
            }
            items
        });
        match r { Ok(v) => items = v, Err(()) => items.push(("PANIC", "exact", vec![0])) }
        add(&rep.name, items, &mut table);
    }
    // ranks of the float data for the index routines (NaN = 0; equal values share a rank)
    let mut vals: Vec<i64> = xi.iter().zip(&nan_at).filter(|(_, &m)| !m).map(|(&v, _)| v).collect();
    vals.sort(); vals.dedup();
    let r: Vec<i64> = xi.iter().zip(&nan_at).map(|(&v, &m)| if m { 0 } else { vals.binary_search(&v).unwrap() as i64 + 1 }).collect();
    for (routine, kind, repsv) in table {
        out.push(json!({"ev": "layout", "routine": routine, "kind": kind, "shape": shape, "r": r, "nreps": repsv.len(), "want": 7, "reps": repsv, "lay": given.to_json()}));
    }
    // two operands that are different views of ONE buffer starting at the same element: the answers must be those
    // obtained with an independent copy of the second operand
    {
        let mut pairs: Vec<(String, String, Vec<Value>)> = Vec::new();
        let mut addp = |rep: &str, items: Vec<Item>, t: &mut Vec<(String, String, Vec<Value>)>| {
            for (r, k, v) in items { match t.iter_mut().find(|e| e.0 == r) { Some(e) => e.2.push(json!({"rep": rep, "v": v})), None => t.push((r.to_string(), k.to_string(), vec![json!({"rep": rep, "v": v})])) } }
        };
        let wv1 = Array1::from(w1.clone());
        if nd == 2 && shape[0] == shape[1] && n >= 4 {
            let m = Array2::from_shape_vec((shape[0], shape[1]), xf.iter().map(|v| if v.is_nan() { 0.5 } else { *v }).collect()).unwrap();
            let (x, yt) = (m.view(), m.t());
            let ycopy = yt.to_owned();
            let (mut i1, mut i2) = (Vec::new(), Vec::new());
            let ax = axis.min(1);
            let w = if wv1.len() == shape[ax] { wv1.clone() } else { Array1::from(vec![1.0; shape[ax]]) };
            if guarded(|| { ro_f64(&x, &yt, &w.view(), ax, &mut i1); ro_f64(&x, &ycopy.view(), &w.view(), ax, &mut i2); }).is_ok() {
                addp("alias", i1, &mut pairs); addp("copy", i2, &mut pairs);
            }
        } else if nd == 1 && n >= 4 {
            let base = Array1::from(xf.iter().map(|v| if v.is_nan() { 0.5 } else { *v }).collect::<Vec<f64>>());
            let h = n / 2;
            let (x, y) = (base.slice(ndarray::s![..h]), base.slice(ndarray::s![..2 * h;2]));
            let ycopy = y.to_owned();
            let w = Array1::from(vec![1.0; h]);
            let (mut i1, mut i2) = (Vec::new(), Vec::new());
            if guarded(|| { ro_f64(&x, &y, &w.view(), 0, &mut i1); ro_f64(&x, &ycopy.view(), &w.view(), 0, &mut i2); }).is_ok() {
                addp("alias", i1, &mut pairs); addp("copy", i2, &mut pairs);
            }
        }
        for (routine, kind, repsv) in pairs {
            if kind == "exact" || kind == "approx" {
                out.push(json!({"ev": "layout", "routine": format!("{}@alias", routine), "kind": kind, "shape": shape, "r": r, "nreps": repsv.len(), "want": 2, "reps": repsv, "lay": given.to_json()}));
            }
        }
    }
    // geometry of the given layout as ndarray reports it (binds the Layout model)
    let p = given.build(&xi, |_| 77);
    out.push(json!({"ev": "geom", "lay": given.to_json(), "g": geom(p.as_ptr(), &given.view(&p))}));
}

pub fn gen(seed: u64, count: usize, tier: &str, _params: &Params) -> Vec<Value> {
    let mut rng = Rng(seed ^ 0x4c41);
    let mut cases = Vec::new();
    for k in 0..count {
        let nd = rng.range(1, if tier == "thorough" { 4 } else { 3 }) as usize;
        let shape: Vec<usize> = (0..nd).map(|_| rng.range(1, 4) as usize).collect();
        let lay = random_lay(&mut rng, &shape, true);
        cases.push(json!({"ev": "layout", "lay": lay.to_json(), "seed": seed.wrapping_mul(1000).wrapping_add(k as u64), "nan": rng.chance(1, 3)}));
    }
    cases
}
