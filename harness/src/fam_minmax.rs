//! Family `minmax`: min / max / argmin / argmax, their skip-NaN variants, the skip-NaN folds
//! and visits, and quantile_axis_skipnan_mut (src/quantile/mod.rs, src/maybe_nan/mod.rs).
use crate::fam_quant::{make_q, qinfo};
use crate::util::*;
use crate::Params;
use ndarray::prelude::*;
use ndarray_stats::errors::{MinMaxError, QuantileError};
use ndarray_stats::interpolate::{Higher, Linear, Lower, Midpoint, Nearest};
use ndarray_stats::verif_hooks::{self, Fallback};
use ndarray_stats::{MaybeNan, MaybeNanExt, QuantileExt};
use noisy_float::types::n64;
use serde_json::{json, Value};

/// Element types of this family: built from a rank (0 = missing), projected back to a rank.
pub trait MElem: Clone + PartialOrd + 'static {
    const NAME: &'static str;
    const CAN_MISS: bool;
    fn make(rank: i64, maxrank: i64, parity: bool) -> Self;
    fn rank(&self, maxrank: i64) -> i64;
}

fn float_table(maxrank: i64) -> Vec<f64> {
    // strictly increasing values for ranks 1..maxrank, with -inf / zero / +inf when there is room
    let k = maxrank as usize;
    let mut t: Vec<f64> = (0..k).map(|x| (x as f64) * 1.5 - (k as f64) * 0.75 + 0.25).collect();
    if k >= 3 {
        t[0] = f64::NEG_INFINITY;
        t[k - 1] = f64::INFINITY;
        t[k / 2] = 0.0;
        for x in 0..k / 2 { if x > 0 { t[x] = -((k / 2 - x) as f64) * 1.5; } }
        for x in k / 2 + 1..k - 1 { t[x] = ((x - k / 2) as f64) * 1.5; }
    }
    t
}

macro_rules! melem_float {
    ($t:ty, $name:expr) => {
        impl MElem for $t {
            const NAME: &'static str = $name;
            const CAN_MISS: bool = true;
            fn make(rank: i64, maxrank: i64, parity: bool) -> Self {
                if rank == 0 { return <$t as AnyNan>::any_nan(); }
                let v = float_table(maxrank)[(rank - 1) as usize];
                (if v == 0.0 && parity { -0.0 } else { v }) as $t
            }
            fn rank(&self, maxrank: i64) -> i64 {
                if <$t>::is_nan(*self) { return 0; }      // the standard library's test, not the library under test's MaybeNan::is_nan
                float_table(maxrank).iter().position(|&v| (v as $t) == *self).map(|p| p as i64 + 1).unwrap_or(-5)
            }
        }
    };
}
melem_float!(f32, "f32");
melem_float!(f64, "f64");

impl MElem for i32 {
    const NAME: &'static str = "i32";
    const CAN_MISS: bool = false;
    fn make(rank: i64, maxrank: i64, _p: bool) -> Self {
        if maxrank >= 3 && rank == 1 { i32::MIN } else if maxrank >= 3 && rank == maxrank { i32::MAX } else { (rank * 7 - 20) as i32 }
    }
    fn rank(&self, maxrank: i64) -> i64 {
        (1..=maxrank).find(|&r| Self::make(r, maxrank, false) == *self).unwrap_or(-5)
    }
}

macro_rules! melem_opt {
    ($t:ty, $name:expr) => {
        impl MElem for Option<$t> {
            const NAME: &'static str = $name;
            const CAN_MISS: bool = true;
            fn make(rank: i64, _m: i64, _p: bool) -> Self { if rank == 0 { None } else { Some((rank * 3) as $t) } }
            fn rank(&self, _m: i64) -> i64 { match self { None => 0, Some(v) => (*v as i64) / 3 } }
        }
    };
}
melem_opt!(i32, "opt_i32");
melem_opt!(u8, "opt_u8");

fn mm_err(e: &MinMaxError) -> &'static str {
    match e { MinMaxError::EmptyInput => "EmptyInput", MinMaxError::UndefinedOrder => "UndefinedOrder" }
}

fn idx_json(p: &IxDyn) -> Vec<usize> { p.slice().to_vec() }

fn plain_part<T: MElem>(v: &ArrayViewD<'_, T>, mr: i64, o: &mut serde_json::Map<String, Value>) {
    let r = guarded(|| v.argmin());
    o.insert("argmin".into(), match r { Ok(Ok(p)) => json!({"out": "ok", "idx": idx_json(&p)}), Ok(Err(e)) => json!({"out": mm_err(&e), "idx": []}), Err(()) => json!({"out": "panic", "idx": []}) });
    let r = guarded(|| v.argmax());
    o.insert("argmax".into(), match r { Ok(Ok(p)) => json!({"out": "ok", "idx": idx_json(&p)}), Ok(Err(e)) => json!({"out": mm_err(&e), "idx": []}), Err(()) => json!({"out": "panic", "idx": []}) });
    let r = guarded(|| v.min().map(|x| x.rank(mr)));
    o.insert("min".into(), match r { Ok(Ok(k)) => json!({"out": "ok", "rank": k}), Ok(Err(e)) => json!({"out": mm_err(&e), "rank": 0}), Err(()) => json!({"out": "panic", "rank": 0}) });
    let r = guarded(|| v.max().map(|x| x.rank(mr)));
    o.insert("max".into(), match r { Ok(Ok(k)) => json!({"out": "ok", "rank": k}), Ok(Err(e)) => json!({"out": mm_err(&e), "rank": 0}), Err(()) => json!({"out": "panic", "rank": 0}) });
}

fn skip_part<T>(v: &ArrayViewD<'_, T>, mr: i64, o: &mut serde_json::Map<String, Value>)
where T: MElem + MaybeNan, T::NotNan: Ord + Clone, {
    let nn_rank = |x: &T::NotNan| -> i64 { T::from_not_nan(x.clone()).rank(mr) };
    let r = guarded(|| v.argmin_skipnan());
    o.insert("sargmin".into(), match r { Ok(Ok(p)) => json!({"out": "ok", "idx": idx_json(&p)}), Ok(Err(_)) => json!({"out": "EmptyInput", "idx": []}), Err(()) => json!({"out": "panic", "idx": []}) });
    let r = guarded(|| v.argmax_skipnan());
    o.insert("sargmax".into(), match r { Ok(Ok(p)) => json!({"out": "ok", "idx": idx_json(&p)}), Ok(Err(_)) => json!({"out": "EmptyInput", "idx": []}), Err(()) => json!({"out": "panic", "idx": []}) });
    let r = guarded(|| v.min_skipnan().rank(mr));
    o.insert("smin".into(), match r { Ok(k) => json!({"out": "ok", "rank": k}), Err(()) => json!({"out": "panic", "rank": 0}) });
    let r = guarded(|| v.max_skipnan().rank(mr));
    o.insert("smax".into(), match r { Ok(k) => json!({"out": "ok", "rank": k}), Err(()) => json!({"out": "panic", "rank": 0}) });
    // folds and visits with recording closures
    let r = guarded(|| v.fold_skipnan(Vec::new(), |mut acc: Vec<i64>, x| { acc.push(nn_rank(x)); acc }));
    o.insert("fold".into(), json!(r.unwrap_or_else(|_| vec![-9])));
    let r = guarded(|| { let mut seen = Vec::new(); v.visit_skipnan(|x| seen.push(nn_rank(x))); seen });
    o.insert("visit".into(), json!(r.unwrap_or_else(|_| vec![-9])));
    let r = guarded(|| v.indexed_fold_skipnan(Vec::new(), |mut acc: Vec<Value>, (p, x)| { acc.push(json!({"idx": idx_json(&p), "rank": nn_rank(x)})); acc }));
    o.insert("ifold".into(), json!(r.unwrap_or_else(|_| vec![json!({"idx": [], "rank": -9})])));
    let mut afold: Vec<Value> = Vec::new();
    for ax in 0..v.ndim() {
        let r = guarded(|| v.fold_axis_skipnan(Axis(ax), Vec::new(), |acc: &Vec<i64>, x| { let mut a = acc.clone(); a.push(nn_rank(x)); a }));
        afold.push(match r { Ok(a) => json!({"axis": ax, "lanes": a.iter().cloned().collect::<Vec<_>>()}), Err(()) => json!({"axis": ax, "lanes": [[-9]]}) });
    }
    o.insert("afold".into(), json!(afold));
}

fn shapes_for(n: usize) -> Vec<Vec<usize>> {
    let mut out: Vec<Vec<usize>> = Vec::new();
    if n == 0 {
        return vec![vec![0], vec![0, 3], vec![2, 0], vec![1, 0, 2], vec![2, 3, 0, 1]];
    }
    out.push(vec![n]);
    if n == 1 { out.push(vec![]); out.push(vec![1, 1]); out.push(vec![1, 1, 1, 1]); }
    for a in 1..=n { if n % a == 0 { let b = n / a; if a > 1 && b > 1 { out.push(vec![a, b]); }
        for c in 2..=b { if b % c == 0 && a > 1 && b / c > 1 { out.push(vec![a, c, b / c]); } } } }
    if n >= 2 { out.push(vec![1, n]); out.push(vec![n, 1, 1]); }
    if n == 4 { out.push(vec![1, 2, 1, 2]); }
    out
}

fn one<T: MElem>(r: &[i64], lay: &Lay, out: &mut Vec<Value>, skip: Option<fn(&ArrayViewD<'_, T>, i64, &mut serde_json::Map<String, Value>)>) {
    let mr = r.iter().copied().max().unwrap_or(0).max(1);
    if !T::CAN_MISS && r.iter().any(|&k| k == 0) { return; }
    let data: Vec<T> = r.iter().enumerate().map(|(p, &k)| T::make(k, mr, p % 2 == 1)).collect();
    let parent = lay.build(&data, |k| T::make(1 + (k as i64 % mr), mr, false));
    let base = parent.as_ptr();
    let v = lay.view(&parent);
    let mut o = serde_json::Map::new();
    o.insert("ev".into(), json!("minmax"));
    o.insert("ty".into(), json!(T::NAME));
    o.insert("lay".into(), lay.to_json());
    o.insert("g".into(), geom(base, &v));
    o.insert("shape".into(), json!(v.shape()));
    o.insert("r".into(), json!(r));
    o.insert("skip".into(), json!(skip.is_some()));
    plain_part(&v, mr, &mut o);
    if let Some(f) = skip { f(&v, mr, &mut o); }
    out.push(Value::Object(o));
}

fn all_types(r: &[i64], lay: &Lay, types: &[&str], out: &mut Vec<Value>) {
    for &t in types {
        match t {
            "i32" => one::<i32>(r, lay, out, None),
            "f32" => one::<f32>(r, lay, out, Some(skip_part::<f32>)),
            "f64" => one::<f64>(r, lay, out, Some(skip_part::<f64>)),
            "opt_i32" => one::<Option<i32>>(r, lay, out, Some(skip_part::<Option<i32>>)),
            "opt_u8" => one::<Option<u8>>(r, lay, out, Some(skip_part::<Option<u8>>)),
            _ => panic!("type {t}"),
        }
    }
}

// --------------------------------------------------------------------------- quantile_axis_skipnan_mut

const MISSING: i64 = -(1 << 29) + 1;
const INFV: i64 = 100_000;

trait SElem: MaybeNan + Clone + 'static { const NAME: &'static str; fn mk(v: i64) -> Self; fn sc(&self) -> i64; }
impl SElem for f64 {
    const NAME: &'static str = "f64";
    // +-INFV stand for the infinities (logged as +-2^28 so that they stay the extreme values)
    fn mk(v: i64) -> Self { if v == MISSING { nan64() } else if v == INFV { f64::INFINITY } else if v == -INFV { f64::NEG_INFINITY } else { v as f64 / 4.0 } }
    fn sc(&self) -> i64 { if f64::is_nan(*self) { MISSING } else if *self == f64::INFINITY { 1 << 28 } else if *self == f64::NEG_INFINITY { -(1 << 28) } else { (self * 1024.0).round() as i64 } }
}
impl SElem for Option<i32> {
    const NAME: &'static str = "opt_i32";
    fn mk(v: i64) -> Self { if v == MISSING { None } else { Some(v as i32) } }
    fn sc(&self) -> i64 { match self { None => MISSING, Some(v) => *v as i64 } }
}

impl SElem for Option<noisy_float::types::N64> {
    const NAME: &'static str = "opt_n64";
    fn mk(v: i64) -> Self { if v == MISSING { None } else { Some(n64(v as f64 / 4.0)) } }
    fn sc(&self) -> i64 { match self { None => MISSING, Some(v) => (v.raw() * 1024.0).round() as i64 } }
}

fn qskip<T: SElem>(case: &Value, out: &mut Vec<Value>)
where T::NotNan: Clone + Ord + num_traits::NumOps + num_traits::FromPrimitive + num_traits::ToPrimitive, {
    let lay = Lay::from_json(&case["lay"]);
    let axis = jint(case, "axis") as usize;
    let data: Vec<T> = jints(&case["data"]).iter().map(|&v| T::mk(v)).collect();
    let strat = jstr(case, "strat", "lower");
    let qspec = case["q"].clone();
    let q = make_q(&qspec);
    let script: Vec<usize> = jints(&case["pv"]).into_iter().map(|x| x as usize).collect();
    let mut parent = lay.build(&data, |_| T::mk(-7));
    let base = parent.as_ptr();
    let unit = if T::NAME == "f64" { 256 } else { 1 };
    let proj = |xs: &[T]| -> Vec<i64> { xs.iter().map(|x| { let s = x.sc(); if s == MISSING { MISSING } else if T::NAME == "f64" { s } else { s } }).collect() };
    let (g, lanes): (Value, Vec<Vec<i64>>) = {
        let v = lay.view(&parent);
        let shape = v.shape().to_vec();
        let mut rest = shape.clone(); rest.remove(axis);
        let nl: usize = rest.iter().product();
        let mut ls = Vec::new();
        for t in 0..nl {
            let mut idx = vec![0usize; rest.len()];
            let mut tt = t;
            for k in (0..rest.len()).rev() { if rest[k] > 0 { idx[k] = tt % rest[k]; tt /= rest[k]; } }
            idx.insert(axis, 0);
            let mut lane = Vec::new();
            for x in 0..shape[axis] { idx[axis] = x; lane.push(v[IxDyn(&idx)].clone()); }
            ls.push(proj(&lane));
        }
        (geom(base, &v), ls)
    };
    let _ = unit;
    let mem0 = proj(&mem_of(&parent));
    verif_hooks::set_script(script, Fallback::Drawn);
    let r = guarded(|| {
        let mut v = lay.view_mut(&mut parent);
        match strat {
            "lower" => v.quantile_axis_skipnan_mut(Axis(axis), n64(q), &Lower),
            "higher" => v.quantile_axis_skipnan_mut(Axis(axis), n64(q), &Higher),
            "nearest" => v.quantile_axis_skipnan_mut(Axis(axis), n64(q), &Nearest),
            "midpoint" => v.quantile_axis_skipnan_mut(Axis(axis), n64(q), &Midpoint),
            "linear" => v.quantile_axis_skipnan_mut(Axis(axis), n64(q), &Linear),
            _ => panic!("strategy"),
        }
    });
    verif_hooks::take_log();
    let mem1 = proj(&mem_of(&parent));
    // the position info depends on the number of kept elements of each lane
    let qis: Vec<Value> = lanes.iter().map(|l| {
        let kept = l.iter().filter(|&&x| x != MISSING).count();
        let mut o = qinfo(q, kept.max(1));
        o.as_object_mut().unwrap().insert("a".into(), qspec["a"].clone());
        o.as_object_mut().unwrap().insert("b".into(), qspec["b"].clone());
        o.as_object_mut().unwrap().insert("u".into(), json!(qspec.get("u").and_then(|x| x.as_i64()).unwrap_or(0)));
        o
    }).collect();
    let (outc, rshape, res) = match &r {
        Ok(Ok(a)) => ("ok", a.shape().to_vec(), proj(&a.iter().cloned().collect::<Vec<T>>())),
        Ok(Err(QuantileError::EmptyInput)) => ("EmptyInput", vec![], vec![]),
        Ok(Err(QuantileError::InvalidQuantile(_))) => ("InvalidQuantile", vec![], vec![]),
        Err(()) => ("panic", vec![], vec![]),
    };
    out.push(json!({"ev": "qskip", "ty": T::NAME, "strat": strat, "axis": axis, "g": g, "lay": lay.to_json(), "lanes": lanes, "qis": qis,
        "out": outc, "rshape": rshape, "res": res, "mem0": mem0, "mem1": mem1, "missing": MISSING,
        "badq": qspec.get("bad").and_then(|x| x.as_bool()).unwrap_or(false)}));
}

pub fn run(case: &Value, params: &Params, out: &mut Vec<Value>) {
    let ev = jstr(case, "ev", "");
    match ev {
        "minmax" => {
            let r = jints(&case["r"]);
            let types: Vec<&str> = match case.get("ty").and_then(|x| x.as_str()) {
                Some(t) => vec![t],
                None => params.get("types").map(|s| s.split('/').collect()).unwrap_or_else(|| vec!["i32", "f32", "f64", "opt_i32", "opt_u8"]),
            };
            if case.get("lay").is_some() {
                all_types(&r, &Lay::from_json(&case["lay"]), &types, out);
            } else {
                // model-generated sequence: every factorisation of its length, C and F order, and one sliced/permuted layout
                let mut rng = Rng(r.iter().fold(17u64, |h, &x| h.wrapping_mul(31).wrapping_add(x as u64)));
                for shape in shapes_for(r.len()) {
                    all_types(&r, &Lay::plain(&shape, false), &types, out);
                    if shape.len() >= 2 { all_types(&r, &Lay::plain(&shape, true), &types, out); }
                    let lay = random_lay(&mut rng, &shape, true);
                    all_types(&r, &lay, &types, out);
                }
            }
            if out.is_empty() { out.push(json!({"ev": "minmax_skip", "note": "no type can hold this pattern"})); }
        }
        "qskip" => match jstr(case, "ty", "f64") {
            "f64" => qskip::<f64>(case, out),
            "opt_i32" => qskip::<Option<i32>>(case, out),
            "opt_n64" => qskip::<Option<noisy_float::types::N64>>(case, out),
            t => panic!("qskip type {t}"),
        },
        _ => panic!("unknown minmax event {ev}"),
    }
}

pub fn gen(seed: u64, count: usize, tier: &str, params: &Params) -> Vec<Value> {
    let mut rng = Rng(seed ^ 0x3141);
    let kinds: Vec<&str> = params.get("kinds").map(|s| s.split('/').collect()).unwrap_or_else(|| vec!["minmax", "qskip"]);
    let mut cases = Vec::new();
    for _ in 0..count {
        match *rng.pick(&kinds) {
            "minmax" => {
                let nd = rng.below(5) as usize;
                let shape: Vec<usize> = (0..nd).map(|_| if rng.chance(1, 12) { 0 } else { rng.range(1, if tier == "thorough" { 4 } else { 3 }) as usize }).collect();
                let n: usize = shape.iter().product();
                let mr = rng.range(1, 5);
                let nan_style = rng.below(5);
                let r: Vec<i64> = (0..n).map(|p| match nan_style {
                    0 => rng.range(1, mr), 1 => if p == 0 { 0 } else { rng.range(1, mr) }, 2 => if p == n - 1 { 0 } else { rng.range(1, mr) },
                    3 => 0, _ => if rng.chance(1, 4) { 0 } else { rng.range(1, mr) } }).collect();
                let fancy = rng.chance(2, 3);
                let lay = random_lay(&mut rng, &shape, fancy);
                let ty = *rng.pick(&["i32", "f32", "f64", "opt_i32", "opt_u8"]);
                cases.push(json!({"ev": "minmax", "r": r, "lay": lay.to_json(), "ty": ty}));
            }
            _ => {
                let nd = rng.range(1, 3) as usize;
                let axis = rng.below(nd as u64) as usize;
                let mut shape: Vec<usize> = (0..nd).map(|_| rng.range(1, 3) as usize).collect();
                shape[axis] = rng.range(1, 7) as usize;
                if nd > 1 && rng.chance(1, 10) { let other = (axis + 1) % nd; shape[other] = 0; }      // zero lanes
                let fancy = rng.chance(2, 3);
                let lay = random_lay(&mut rng, &shape, fancy);
                let n: usize = shape.iter().product();
                let dens = rng.below(4);
                let ty = *rng.pick(&["f64", "opt_i32", "opt_n64"]);
                let strat = *rng.pick(crate::fam_quant::STRATS);
                // infinities (f64, selecting strategies only: interpolating with an infinity is not a number)
                let infs = ty == "f64" && matches!(strat, "lower" | "higher" | "nearest") && rng.chance(1, 3);
                let data: Vec<i64> = (0..n).map(|_| { let miss = match dens { 0 => false, 1 => true, 2 => rng.chance(1, 4), _ => rng.chance(1, 2) };
                    if miss { MISSING } else if infs && rng.chance(1, 4) { if rng.chance(1, 2) { INFV } else { -INFV } } else { rng.range(-40, 40) } }).collect();
                let b = *rng.pick(&[1i64, 2, 3, 4, 5, 8, 10]);
                let q = json!({"a": rng.range(0, b), "b": b, "u": *rng.pick(&[0i64, 0, 1, -1])});
                // one request in ten lies outside [0, 1]: rejected whatever the data hold
                let q = if rng.chance(1, 10) { if rng.chance(1, 2) { json!({"a": 3, "b": 2, "u": 0, "bad": true}) } else { json!({"a": -1, "b": 4, "u": 0, "bad": true}) } } else { q };
                let script: Vec<i64> = if rng.chance(1, 3) { (0..rng.below(6)).map(|_| rng.below(1000) as i64).collect() } else { vec![] };
                cases.push(json!({"ev": "qskip", "ty": ty, "strat": strat, "lay": lay.to_json(),
                                  "axis": axis, "data": data, "q": q, "pv": script}));
            }
        }
    }
    cases
}
