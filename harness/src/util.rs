//! Shared helpers: projections (rank / bits), strided materialisation, panic capture.
use ndarray::prelude::*;
use ndarray::Slice;
use serde_json::{json, Value};
use std::collections::BTreeMap;
use std::panic::{catch_unwind, AssertUnwindSafe};

pub const BIG: i64 = 1_000_000;

/// Runs `f`, turning a panic into `Err(())`.
pub fn guarded<R>(f: impl FnOnce() -> R) -> Result<R, ()> {
    catch_unwind(AssertUnwindSafe(f)).map_err(|_| ())
}

/// Dense ranks (1-based) of the distinct values of `vals`.
pub fn rank_map<T: Ord + Clone>(vals: &[T]) -> BTreeMap<T, i64> {
    let mut m = BTreeMap::new();
    for v in vals {
        m.insert(v.clone(), 0);
    }
    for (k, (_, r)) in m.iter_mut().enumerate() {
        *r = k as i64 + 1;
    }
    m
}

pub fn rank_of<T: Ord>(m: &BTreeMap<T, i64>, v: &T) -> i64 {
    *m.get(v).unwrap_or(&-5)
}

pub fn ranks_of<'a, T: Ord + 'a>(m: &BTreeMap<T, i64>, it: impl IntoIterator<Item = &'a T>) -> Vec<i64> {
    it.into_iter().map(|v| rank_of(m, v)).collect()
}

/// Doubled rank of a value that need not be one of the keys: 2*rank for a key,
/// 2*(#keys below)+1 for a value strictly between two keys (or outside).
pub fn rank2_of<T: Ord>(m: &BTreeMap<T, i64>, v: &T) -> i64 {
    match m.get(v) {
        Some(r) => 2 * r,
        None => 2 * (m.range(..v).count() as i64) + 1,
    }
}

/// A strictly increasing map from small ints to the whole i64 range ("ext"),
/// or the identity ("id").
pub fn vmap_i64(v: i64, k: i64, mode: &str) -> i64 {
    match mode {
        "ext" => {
            let step = (u64::MAX as i128) / ((k + 2) as i128);
            ((i64::MIN as i128) + (v as i128) * step) as i64
        }
        _ => v,
    }
}

pub fn jints(v: &Value) -> Vec<i64> {
    v.as_array()
        .map(|a| a.iter().map(|x| x.as_i64().unwrap()).collect())
        .unwrap_or_default()
}

pub fn jint(v: &Value, key: &str) -> i64 {
    v.get(key).and_then(|x| x.as_i64()).unwrap_or_else(|| panic!("missing int field {key} in {v}"))
}

pub fn jstr<'a>(v: &'a Value, key: &str, default: &'a str) -> &'a str {
    v.get(key).and_then(|x| x.as_str()).unwrap_or(default)
}

/// Positions are logged as small integers; BIG - k (0 <= k < 1000) stands for usize::MAX - k.
pub fn to_usize(i: i64) -> usize {
    if i > BIG - 1000 {
        usize::MAX - (BIG - i.min(BIG)) as usize
    } else {
        i as usize
    }
}

pub fn from_usize(i: usize) -> i64 {
    if i > usize::MAX - 1000 {
        BIG - (usize::MAX - i) as i64
    } else if i as u128 >= (BIG - 1000) as u128 {
        BIG - 1000
    } else {
        i as i64
    }
}

/// A 1-D lane embedded in a larger parent buffer with a given stride and offset.
pub struct Strided<T> {
    pub parent: Array1<T>,
    pub n: usize,
    pub stride: isize,
    pub off: usize,
}

impl<T: Clone> Strided<T> {
    /// `pad(k)` supplies the content of parent cell k that is not part of the lane.
    pub fn new(lane: &[T], stride: isize, off: usize, pad: impl Fn(usize) -> T) -> Self {
        let n = lane.len();
        let a = stride.unsigned_abs();
        let span = if n == 0 { 0 } else { (n - 1) * a + 1 };
        let len = off + span + off + 1;
        let mut parent: Vec<T> = (0..len).map(&pad).collect();
        for (t, v) in lane.iter().enumerate() {
            parent[Self::addr_static(n, stride, off, t)] = v.clone();
        }
        Strided { parent: Array1::from(parent), n, stride, off }
    }

    fn addr_static(n: usize, stride: isize, off: usize, t: usize) -> usize {
        let a = stride.unsigned_abs();
        if stride > 0 {
            off + t * a
        } else {
            off + (n - 1 - t) * a
        }
    }

    /// Parent position of logical lane element `t`.
    pub fn addr(&self, t: usize) -> usize {
        Self::addr_static(self.n, self.stride, self.off, t)
    }

    pub fn addrs(&self) -> Vec<usize> {
        (0..self.n).map(|t| self.addr(t)).collect()
    }

    pub fn view_mut(&mut self) -> ArrayViewMut1<'_, T> {
        let a = self.stride.unsigned_abs();
        let span = if self.n == 0 { 0 } else { (self.n - 1) * a + 1 };
        let sl = Slice::new(self.off as isize, Some((self.off + span) as isize), self.stride);
        self.parent.slice_axis_mut(Axis(0), sl)
    }

    pub fn lane(&self) -> Vec<T> {
        (0..self.n).map(|t| self.parent[self.addr(t)].clone()).collect()
    }
}

/// f64 as three integers (22 + 21 + 21 bits): equality of triples is equality of bits.
pub fn bits3(x: f64) -> Value {
    // every NaN is the same value for the purposes of "bit for bit" (sign and payload of a NaN are not part of any contract)
    if x.is_nan() { return json!([-1, -1, -1]); }
    let b = x.to_bits();
    json!([(b >> 42) as i64, ((b >> 21) & 0x1f_ffff) as i64, (b & 0x1f_ffff) as i64])
}

/// A small deterministic PRNG (splitmix64) so drivers do not depend on `rand`'s stream.
pub struct Rng(pub u64);
impl Rng {
    pub fn next(&mut self) -> u64 {
        self.0 = self.0.wrapping_add(0x9E37_79B9_7F4A_7C15);
        let mut z = self.0;
        z = (z ^ (z >> 30)).wrapping_mul(0xBF58_476D_1CE4_E5B9);
        z = (z ^ (z >> 27)).wrapping_mul(0x94D0_49BB_1331_11EB);
        z ^ (z >> 31)
    }
    pub fn below(&mut self, n: u64) -> u64 {
        if n == 0 {
            0
        } else {
            self.next() % n
        }
    }
    pub fn range(&mut self, lo: i64, hi: i64) -> i64 {
        lo + self.below((hi - lo + 1) as u64) as i64
    }
    pub fn pick<'a, T>(&mut self, xs: &'a [T]) -> &'a T {
        &xs[self.below(xs.len() as u64) as usize]
    }
    pub fn chance(&mut self, num: u64, den: u64) -> bool {
        self.below(den) < num
    }
}

// --------------------------------------------------------------------------- layouts

/// A layout descriptor: parent shape + memory order, one slice per axis, an axis permutation.
#[derive(Clone, Debug)]
pub struct Lay {
    pub pshape: Vec<usize>,
    pub forder: bool,
    pub sl: Vec<(isize, isize, isize)>,
    pub perm: Vec<usize>,
}

impl Lay {
    pub fn from_json(v: &Value) -> Lay {
        let pshape: Vec<usize> = jints(&v["pshape"]).into_iter().map(|x| x as usize).collect();
        let forder = jstr(v, "order", "C") == "F";
        let sl: Vec<(isize, isize, isize)> = match v.get("sl").and_then(|x| x.as_array()) {
            Some(a) if !a.is_empty() => a.iter().map(|t| { let t = jints(t); (t[0] as isize, t[1] as isize, t[2] as isize) }).collect(),
            _ => pshape.iter().map(|&d| (0, d as isize, 1)).collect(),
        };
        let perm: Vec<usize> = match v.get("perm").and_then(|x| x.as_array()) {
            Some(a) if !a.is_empty() => a.iter().map(|x| x.as_i64().unwrap() as usize).collect(),
            _ => (0..pshape.len()).collect(),
        };
        Lay { pshape, forder, sl, perm }
    }

    pub fn to_json(&self) -> Value {
        json!({"pshape": self.pshape, "order": if self.forder {"F"} else {"C"},
               "sl": self.sl.iter().map(|&(a, b, c)| json!([a, b, c])).collect::<Vec<_>>(), "perm": self.perm})
    }

    /// The trivial layout of a freshly allocated array of this logical shape.
    pub fn plain(shape: &[usize], forder: bool) -> Lay {
        Lay { pshape: shape.to_vec(), forder, sl: shape.iter().map(|&d| (0, d as isize, 1)).collect(), perm: (0..shape.len()).collect() }
    }

    /// Logical shape of the view.
    pub fn shape(&self) -> Vec<usize> {
        let sliced: Vec<usize> = self.sl.iter().map(|&(a, b, c)| { let m = (b - a).max(0) as usize; let s = c.unsigned_abs(); (m + s - 1) / s }).collect();
        self.perm.iter().map(|&k| sliced[k]).collect()
    }

    pub fn size(&self) -> usize {
        self.shape().iter().product()
    }

    /// Parent buffer: cell with memory address k holds `pad(k)`.
    pub fn parent<T: Clone>(&self, pad: impl Fn(usize) -> T) -> ArrayD<T> {
        let n: usize = self.pshape.iter().product();
        let v: Vec<T> = (0..n).map(pad).collect();
        if self.forder {
            ArrayD::from_shape_vec(IxDyn(&self.pshape).f(), v).unwrap()
        } else {
            ArrayD::from_shape_vec(IxDyn(&self.pshape), v).unwrap()
        }
    }

    pub fn view_mut<'a, T>(&self, parent: &'a mut ArrayD<T>) -> ArrayViewMutD<'a, T> {
        let mut v = parent.view_mut();
        for (ax, &(a, b, c)) in self.sl.iter().enumerate() {
            v.slice_axis_inplace(Axis(ax), Slice::new(a, Some(b), c));
        }
        v.permuted_axes(IxDyn(&self.perm))
    }

    pub fn view<'a, T>(&self, parent: &'a ArrayD<T>) -> ArrayViewD<'a, T> {
        let mut v = parent.view();
        for (ax, &(a, b, c)) in self.sl.iter().enumerate() {
            v.slice_axis_inplace(Axis(ax), Slice::new(a, Some(b), c));
        }
        v.permuted_axes(IxDyn(&self.perm))
    }

    /// Parent with the view's logical elements (row-major order) set to `data`.
    pub fn build<T: Clone>(&self, data: &[T], pad: impl Fn(usize) -> T) -> ArrayD<T> {
        let mut p = self.parent(pad);
        {
            let mut v = self.view_mut(&mut p);
            assert_eq!(v.len(), data.len(), "layout size {:?} vs data {}", self, data.len());
            for (dst, src) in v.iter_mut().zip(data.iter()) {
                *dst = src.clone();
            }
        }
        p
    }
}

/// Observed geometry of a view relative to the parent's buffer start (in elements).
pub fn geom<T, D: Dimension>(base: *const T, v: &ArrayBase<impl ndarray::RawData<Elem = T>, D>) -> Value {
    // the pointer of an empty view is meaningless (it may dangle): project it to 0
    let off = if v.len() == 0 { 0 } else { (v.as_ptr() as isize - base as isize) / (std::mem::size_of::<T>().max(1) as isize) };
    json!({"ptr": off, "shape": v.shape(), "strides": v.strides()})
}

pub fn mem_of<T: Clone>(p: &ArrayD<T>) -> Vec<T> {
    p.as_slice_memory_order().expect("parent is contiguous").to_vec()
}

/// Random layout descriptor whose view has logical shape `shape`.
pub fn random_lay(rng: &mut Rng, shape: &[usize], fancy: bool) -> Lay {
    let nd = shape.len();
    let forder = rng.chance(1, 2);
    if !fancy {
        return Lay::plain(shape, forder);
    }
    // choose a permutation; the pre-permutation (sliced) shape is shape[inv perm]
    let mut perm: Vec<usize> = (0..nd).collect();
    if rng.chance(1, 2) {
        for k in (1..nd).rev() {
            let j = rng.below(k as u64 + 1) as usize;
            perm.swap(k, j);
        }
    }
    let mut sliced = vec![0usize; nd];
    for (k, &p) in perm.iter().enumerate() {
        sliced[p] = shape[k];
    }
    let mut pshape = Vec::new();
    let mut sl = Vec::new();
    for &d in &sliced {
        let step: isize = *rng.pick(&[1, 1, 2, -1, -2, 3, -3]);
        let a = step.unsigned_abs();
        let lead = rng.below(3) as usize;
        let trail = rng.below(3) as usize;
        // m elements covered so that ceil(m/a) == d
        let m = if d == 0 { 0 } else { (d - 1) * a + 1 + rng.below(a as u64) as usize };
        pshape.push(lead + m + trail);
        sl.push((lead as isize, (lead + m) as isize, step));
    }
    Lay { pshape, forder, sl, perm }
}

/// (ptr, len, stride) of a 1-D view relative to `base`; the pointer of an empty view is projected to 0.
pub fn view1_geom<T>(base: *const T, ptr: *const T, len: usize, stride: isize) -> Value {
    let off = if len == 0 { 0 } else { (ptr as isize - base as isize) / (std::mem::size_of::<T>().max(1) as isize) };
    json!({"ptr": off, "len": len, "stride": stride})
}

impl Lay {
    /// An *owned* array with this layout (sliced and permuted in place, so offset and strides are kept).
    pub fn owned<T: Clone>(&self, data: &[T], pad: impl Fn(usize) -> T) -> ArrayD<T> {
        let mut p = self.build(data, pad);
        for (ax, &(a, b, c)) in self.sl.iter().enumerate() {
            p.slice_axis_inplace(Axis(ax), Slice::new(a, Some(b), c));
        }
        p.permuted_axes(IxDyn(&self.perm))
    }
}

/// Every NaN is a missing value: quiet or signalling, either sign, any payload.  Successive calls rotate through
/// representative bit patterns (default quiet NaN, x86 default -NaN, a signalling NaN with payload such as R's NA_real_,
/// its negative, a quiet NaN with payload).
static NAN_KIND: std::sync::atomic::AtomicU64 = std::sync::atomic::AtomicU64::new(0);
pub fn nan64() -> f64 {
    let k = NAN_KIND.fetch_add(1, std::sync::atomic::Ordering::Relaxed);
    let bits: u64 = match k % 7 { 0 | 1 | 2 => 0x7FF8_0000_0000_0000, 3 => 0xFFF8_0000_0000_0000, 4 => 0x7FF0_0000_0000_07A2, 5 => 0xFFF0_0000_0000_0001, _ => 0x7FFC_0000_DEAD_BEEF };
    let x = f64::from_bits(bits);
    assert!(x.is_nan());
    x
}
pub fn nan32() -> f32 {
    let k = NAN_KIND.fetch_add(1, std::sync::atomic::Ordering::Relaxed);
    let bits: u32 = match k % 7 { 0 | 1 | 2 => 0x7FC0_0000, 3 => 0xFFC0_0000, 4 => 0x7F80_07A2, 5 => 0xFF80_0001, _ => 0x7FE0_BEEF };
    let x = f32::from_bits(bits);
    assert!(x.is_nan());
    x
}
pub trait AnyNan { fn any_nan() -> Self; }
impl AnyNan for f64 { fn any_nan() -> Self { nan64() } }
impl AnyNan for f32 { fn any_nan() -> Self { nan32() } }

/// 2^e exactly for every e for which it is representable (subnormals included); `powi` with a negative exponent goes
/// through 1 / 2^|e| and flushes to zero once 2^|e| overflows.
pub fn pow2(e: i32) -> f64 {
    if e > 1023 { f64::INFINITY } else if e >= -1022 { f64::from_bits(((e + 1023) as u64) << 52) } else if e >= -1074 { f64::from_bits(1u64 << (e + 1074)) } else { 0.0 }
}
