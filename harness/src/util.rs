//! Shared helpers: projections (rank / bits), strided materialisation, panic capture.
use ndarray::prelude::*;
use ndarray::Slice;
use serde_json::{json, Value};
use std::collections::BTreeMap;
use std::panic::{catch_unwind, AssertUnwindSafe};

pub const BIG: i64 = 1_000_000;

/// Runs `f`, turning a panic into `Err(())`.
pub fn guarded<R>(f: impl FnOnce() -> R) -> Result<R, ()> {
    catch_unwind(AssertUnwindSafe(f)).map_err(|_| ())
}

/// Dense ranks (1-based) of the distinct values of `vals`.
pub fn rank_map<T: Ord + Clone>(vals: &[T]) -> BTreeMap<T, i64> {
    let mut m = BTreeMap::new();
    for v in vals {
        m.insert(v.clone(), 0);
    }
    for (k, (_, r)) in m.iter_mut().enumerate() {
        *r = k as i64 + 1;
    }
    m
}

pub fn rank_of<T: Ord>(m: &BTreeMap<T, i64>, v: &T) -> i64 {
    *m.get(v).unwrap_or(&-5)
}

pub fn ranks_of<'a, T: Ord + 'a>(m: &BTreeMap<T, i64>, it: impl IntoIterator<Item = &'a T>) -> Vec<i64> {
    it.into_iter().map(|v| rank_of(m, v)).collect()
}

/// Doubled rank of a value that need not be one of the keys: 2*rank for a key,
/// 2*(#keys below)+1 for a value strictly between two keys (or outside).
pub fn rank2_of<T: Ord>(m: &BTreeMap<T, i64>, v: &T) -> i64 {
    match m.get(v) {
        Some(r) => 2 * r,
        None => 2 * (m.range(..v).count() as i64) + 1,
    }
}

/// A strictly increasing map from small ints to the whole i64 range ("ext"),
/// or the identity ("id").
pub fn vmap_i64(v: i64, k: i64, mode: &str) -> i64 {
    match mode {
        "ext" => {
            let step = (u64::MAX as i128) / ((k + 2) as i128);
            ((i64::MIN as i128) + (v as i128) * step) as i64
        }
        _ => v,
    }
}

pub fn jints(v: &Value) -> Vec<i64> {
    v.as_array()
        .map(|a| a.iter().map(|x| x.as_i64().unwrap()).collect())
        .unwrap_or_default()
}

pub fn jint(v: &Value, key: &str) -> i64 {
    v.get(key).and_then(|x| x.as_i64()).unwrap_or_else(|| panic!("missing int field {key} in {v}"))
}

pub fn jstr<'a>(v: &'a Value, key: &str, default: &'a str) -> &'a str {
    v.get(key).and_then(|x| x.as_str()).unwrap_or(default)
}

pub fn to_usize(i: i64) -> usize {
    if i >= BIG {
        usize::MAX
    } else {
        i as usize
    }
}

pub fn from_usize(i: usize) -> i64 {
    if i as u128 >= BIG as u128 {
        BIG
    } else {
        i as i64
    }
}

/// A 1-D lane embedded in a larger parent buffer with a given stride and offset.
pub struct Strided<T> {
    pub parent: Array1<T>,
    pub n: usize,
    pub stride: isize,
    pub off: usize,
}

impl<T: Clone> Strided<T> {
    /// `pad(k)` supplies the content of parent cell k that is not part of the lane.
    pub fn new(lane: &[T], stride: isize, off: usize, pad: impl Fn(usize) -> T) -> Self {
        let n = lane.len();
        let a = stride.unsigned_abs();
        let span = if n == 0 { 0 } else { (n - 1) * a + 1 };
        let len = off + span + off + 1;
        let mut parent: Vec<T> = (0..len).map(&pad).collect();
        for (t, v) in lane.iter().enumerate() {
            parent[Self::addr_static(n, stride, off, t)] = v.clone();
        }
        Strided { parent: Array1::from(parent), n, stride, off }
    }

    fn addr_static(n: usize, stride: isize, off: usize, t: usize) -> usize {
        let a = stride.unsigned_abs();
        if stride > 0 {
            off + t * a
        } else {
            off + (n - 1 - t) * a
        }
    }

    /// Parent position of logical lane element `t`.
    pub fn addr(&self, t: usize) -> usize {
        Self::addr_static(self.n, self.stride, self.off, t)
    }

    pub fn addrs(&self) -> Vec<usize> {
        (0..self.n).map(|t| self.addr(t)).collect()
    }

    pub fn view_mut(&mut self) -> ArrayViewMut1<'_, T> {
        let a = self.stride.unsigned_abs();
        let span = if self.n == 0 { 0 } else { (self.n - 1) * a + 1 };
        let sl = Slice::new(self.off as isize, Some((self.off + span) as isize), self.stride);
        self.parent.slice_axis_mut(Axis(0), sl)
    }

    pub fn lane(&self) -> Vec<T> {
        (0..self.n).map(|t| self.parent[self.addr(t)].clone()).collect()
    }
}

/// f64 as three integers (22 + 21 + 21 bits): equality of triples is equality of bits.
pub fn bits3(x: f64) -> Value {
    let b = x.to_bits();
    json!([(b >> 42) as i64, ((b >> 21) & 0x1f_ffff) as i64, (b & 0x1f_ffff) as i64])
}

/// A small deterministic PRNG (splitmix64) so drivers do not depend on `rand`'s stream.
pub struct Rng(pub u64);
impl Rng {
    pub fn next(&mut self) -> u64 {
        self.0 = self.0.wrapping_add(0x9E37_79B9_7F4A_7C15);
        let mut z = self.0;
        z = (z ^ (z >> 30)).wrapping_mul(0xBF58_476D_1CE4_E5B9);
        z = (z ^ (z >> 27)).wrapping_mul(0x94D0_49BB_1331_11EB);
        z ^ (z >> 31)
    }
    pub fn below(&mut self, n: u64) -> u64 {
        if n == 0 {
            0
        } else {
            self.next() % n
        }
    }
    pub fn range(&mut self, lo: i64, hi: i64) -> i64 {
        lo + self.below((hi - lo + 1) as u64) as i64
    }
    pub fn pick<'a, T>(&mut self, xs: &'a [T]) -> &'a T {
        &xs[self.below(xs.len() as u64) as usize]
    }
    pub fn chance(&mut self, num: u64, den: u64) -> bool {
        self.below(den) < num
    }
}
