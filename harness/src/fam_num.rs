//! Family `num`: summary statistics (C06, C07, C18), covariance / correlation (C08),
//! deviation measures (C09), entropy family (C10).  Inputs are small integers standing for
//! exactly representable values; float results are logged as round(res * 2^qe).
use crate::util::*;
use crate::Params;
use ndarray::prelude::*;
use ndarray_stats::{CorrelationExt, DeviationExt, EntropyExt, SummaryStatisticsExt};
use num_traits::{Float, FromPrimitive};
use serde_json::{json, Value};

const CAP: f64 = 536870000.0;

// reserved integers (TLC cannot compare integers with strings): not-a-number, beyond the loggable range, failed call
const NAN_Q: i64 = 536870911;
const BIG_Q: i64 = 536870900;
const ERR_Q: i64 = 536870905;

fn quant(x: f64, qe: i64) -> Value {
    if x.is_nan() { return json!(NAN_Q); }
    let y = x * pow2(qe as i32);
    if y.abs() > CAP { return json!(if y > 0.0 { BIG_Q } else { -BIG_Q }); }
    json!(y.round() as i64)
}

trait F: Float + FromPrimitive + std::ops::AddAssign + std::fmt::Debug + 'static { const NAME: &'static str; fn f(x: f64) -> Self; fn g(self) -> f64; }
impl F for f64 { const NAME: &'static str = "f64"; fn f(x: f64) -> Self { x } fn g(self) -> f64 { self } }
impl F for f32 { const NAME: &'static str = "f32"; fn f(x: f64) -> Self { x as f32 } fn g(self) -> f64 { self as f64 } }

fn lay_of(case: &Value, key: &str, shape: &[usize]) -> Lay {
    match case.get(key) { Some(v) if v.is_object() => Lay::from_json(v), _ => Lay::plain(shape, false) }
}
fn shape_of(case: &Value, n: usize) -> Vec<usize> {
    match case.get("shape") { Some(v) if v.is_array() => jints(v).into_iter().map(|x| x as usize).collect(), _ => vec![n] }
}
fn res_json<T, E>(r: Result<Result<T, E>, ()>, f: impl Fn(T) -> Value) -> (String, Value) {
    match r { Ok(Ok(v)) => ("ok".into(), f(v)), Ok(Err(_)) => ("error".into(), json!(0)), Err(()) => ("panic".into(), json!(0)) }
}

/// Float summary statistics.  values x = base + r/S, weights w/WS, logged result round((res - sub) * 2^qe).
fn summ_float<T: F>(case: &Value, out: &mut Vec<Value>) {
    let stat = jstr(case, "stat", "");
    let r = jints(&case["r"]);
    let w = jints(&case["w"]);
    let s = case.get("S").and_then(|x| x.as_i64()).unwrap_or(4) as f64;
    let ws = case.get("WS").and_then(|x| x.as_i64()).unwrap_or(1) as f64;
    let bexp = case.get("bexp").and_then(|x| x.as_i64()).unwrap_or(-1);
    let base = if bexp < 0 { 0.0 } else { pow2(bexp as i32) };
    let qe = jint(case, "qe");
    let d2 = case.get("d").and_then(|x| x.as_i64()).unwrap_or(0);
    let p = case.get("p").and_then(|x| x.as_i64()).unwrap_or(2) as u16;
    let shape = shape_of(case, r.len());
    let axis = case.get("axis").and_then(|x| x.as_i64()).unwrap_or(0) as usize;
    let sexp = case.get("sexp").and_then(|x| x.as_i64()).unwrap_or(0) as i32;
    let scale = pow2(sexp);
    let xs: Vec<T> = match stat {
        "geometric" => r.iter().map(|&e| T::f(pow2(e as i32))).collect(),
        _ => r.iter().map(|&v| T::f((base + v as f64 / s) * scale)).collect(),
    };
    // mu_p of the scaled data divided by 2^(p*sexp) (exact) is mu_p of the unscaled data
    let unscale = |v: T, pw: i32| -> T { T::f(v.g() * pow2(-pw * sexp)) };
    // optional non-finite observations: [position, kind] with kind 1 = +inf, 2 = -inf, 3 = NaN
    let mut xs = xs;
    if let Some(sp) = case.get("specials").and_then(|x| x.as_array()) {
        for it in sp { let p = it[0].as_i64().unwrap() as usize; if p < xs.len() { xs[p] = match it[1].as_i64().unwrap() { 1 => T::infinity(), 2 => T::neg_infinity(), _ => T::nan() }; } }
    }
    // an observation of weight zero that holds a value whose square is not representable
    if case.get("huge0").and_then(|x| x.as_bool()).unwrap_or(false) && w.first() == Some(&0) {
        xs[0] = T::f(if T::NAME == "f32" { pow2(100) } else { pow2(600) } * if r[0] < 0 { -1.0 } else { 1.0 });
    }
    let a = lay_of(case, "lay1", &shape).build(&xs, |_| T::f(-777.0));
    let l1 = lay_of(case, "lay1", &shape);
    let av = l1.view(&a);
    let wexp = case.get("wexp").and_then(|x| x.as_i64()).unwrap_or(0) as i32;
    let wv: Vec<T> = w.iter().map(|&v| T::f(v as f64 / ws * pow2(wexp))).collect();
    let mut o = case.as_object().unwrap().clone();
    o.insert("ev".into(), json!("summ"));
    o.insert("ty".into(), json!(T::NAME));
    let ddof = if case.get("dnan").and_then(|x| x.as_bool()).unwrap_or(false) { T::nan() } else { T::f(d2 as f64 / 2.0) };
    let q = |x: T, sub: f64| quant(x.g() - sub, qe);
    let (outc, res): (String, Value) = match stat {
        "mean" => res_json(guarded(|| SummaryStatisticsExt::mean(&av)), |v| q(unscale(v, 1), base)),
        "harmonic" => {
            // the harmonic mean is odd: the same data negated (all negative) gives the negated result
            let neg = av.mapv(|x| -x);
            let rn = match guarded(|| neg.harmonic_mean()) { Ok(Ok(v)) => q(unscale(v, 1), 0.0), _ => json!(ERR_Q) };
            o.insert("res_neg".into(), rn);
            res_json(guarded(|| av.harmonic_mean()), |v| q(unscale(v, 1), 0.0))
        }
        "geometric" => res_json(guarded(|| av.geometric_mean()), |v| quant(v.g().log2(), qe)),
        "moment" => res_json(guarded(|| av.central_moment(p)), |v| json!({"q": q(unscale(v, p as i32), 0.0), "one": v.g().to_bits() == 1.0f64.to_bits() || v == T::one(), "zero": v == T::zero()})),
        "moments" => res_json(guarded(|| av.central_moments(p)), |v| {
            // C18: central_moments(p)[k] against central_moment(k), bit for bit
            let singles: Vec<T> = (0..=p).map(|k| av.central_moment(k).unwrap()).collect();
            json!({"q": v.iter().enumerate().map(|(k, &x)| q(unscale(x, k as i32), 0.0)).collect::<Vec<_>>(),
                   "bits": v.iter().map(|&x| bits3(x.g())).collect::<Vec<_>>(),
                   "single_bits": singles.iter().map(|&x| bits3(x.g())).collect::<Vec<_>>()}) }),
        "skew" => res_json(guarded(|| av.skewness()), |v| json!({"q": quant(v.g() * v.g(), qe), "sgn": if v > T::zero() { 1 } else if v < T::zero() { -1 } else { 0 }})),
        "kurt" => res_json(guarded(|| av.kurtosis()), |v| q(v, 0.0)),
        "wsum" | "wmean" | "wvar" | "wstd" => {
            let b = lay_of(case, "lay2", &shape).build(&wv, |_| T::f(-555.0));
            let l2 = lay_of(case, "lay2", &shape);
            // weights must have the same storage type as the data: use owned copies in the two layouts
            let ao = av.to_owned();
            let ao = if l1.forder { let mut t = Array::zeros(ao.raw_dim().f()); t.assign(&ao); t } else { ao };
            let bv = l2.view(&b);
            let bo = if l2.forder { let mut t = Array::zeros(bv.raw_dim().f()); t.assign(&bv); t } else { bv.to_owned() };
            match stat {
                "wsum" => res_json(guarded(|| ao.weighted_sum(&bo)), |v| q(T::f(v.g() * pow2(-wexp)), 0.0)),
                "wmean" => res_json(guarded(|| ao.weighted_mean(&bo)), |v| q(v, base)),
                "wvar" => res_json(guarded(|| ao.weighted_var(&bo, ddof)), |v| q(v, 0.0)),
                _ => res_json(guarded(|| ao.weighted_std(&bo, ddof)), |v| quant(v.g() * v.g(), qe)),
            }
        }
        "wsum_axis" | "wmean_axis" | "wvar_axis" | "wstd_axis" => {
            let ao = av.to_owned();
            // the weights as an owned 1-D array that is plain, reversed in memory (stride -1) or stepped (stride 2)
            let w1: Array1<T> = match jstr(case, "wlay", "plain") {
                "rev" => { let mut v: Vec<T> = wv.clone(); v.reverse(); Array1::from(v).slice_move(ndarray::s![..;-1]) }
                "step" => { let mut v: Vec<T> = Vec::new(); for x in &wv { v.push(*x); v.push(T::f(-9.0)); } Array1::from(v).slice_move(ndarray::s![..;2]) }
                _ => wv.iter().cloned().collect(),
            };
            // whole-array routine applied to each lane with the same weights (C18)
            let lanes: Vec<Array1<T>> = ao.lanes(Axis(axis)).into_iter().map(|l| l.to_owned()).collect();
            let per_lane = |f: &dyn Fn(&Array1<T>) -> T| -> Vec<Value> { lanes.iter().map(|l| bits3(f(l).g())).collect() };
            // relative difference (in units of 2^-20) between each per-axis element and the whole-array routine on that lane
            let rel = |v: &ndarray::ArrayD<T>, f: &dyn Fn(&Array1<T>) -> T| -> Vec<i64> {
                v.iter().zip(lanes.iter()).map(|(&a, l)| { let (a, b) = (a.g(), f(l).g());
                    if a.is_nan() && b.is_nan() { 0 } else if a.is_nan() || b.is_nan() { NAN_Q } else if a == b { 0 }
                    else { let d = (a - b) / b.abs().max(f64::MIN_POSITIVE) * 1048576.0; if d.abs() > CAP { BIG_Q } else { d.round() as i64 } } }).collect() };
            match stat {
                "wsum_axis" => res_json(guarded(|| ao.weighted_sum_axis(Axis(axis), &w1)), |v| json!({"q": v.iter().map(|&x| q(x, 0.0)).collect::<Vec<_>>(), "bits": v.iter().map(|&x| bits3(x.g())).collect::<Vec<_>>(), "lane_bits": per_lane(&|l| l.weighted_sum(&w1).unwrap()), "rel": rel(&v.clone().into_dyn(), &|l| l.weighted_sum(&w1).unwrap())})),
                "wmean_axis" => res_json(guarded(|| ao.weighted_mean_axis(Axis(axis), &w1)), |v| json!({"q": v.iter().map(|&x| q(x, base)).collect::<Vec<_>>(), "bits": v.iter().map(|&x| bits3(x.g())).collect::<Vec<_>>(), "lane_bits": per_lane(&|l| l.weighted_mean(&w1).unwrap()), "rel": rel(&v.clone().into_dyn(), &|l| l.weighted_mean(&w1).unwrap())})),
                "wvar_axis" => res_json(guarded(|| ao.weighted_var_axis(Axis(axis), &w1, ddof)), |v| json!({"q": v.iter().map(|&x| q(x, 0.0)).collect::<Vec<_>>(), "bits": v.iter().map(|&x| bits3(x.g())).collect::<Vec<_>>(), "lane_bits": per_lane(&|l| l.weighted_var(&w1, ddof).unwrap()), "rel": rel(&v.clone().into_dyn(), &|l| l.weighted_var(&w1, ddof).unwrap())})),
                _ => res_json(guarded(|| ao.weighted_std_axis(Axis(axis), &w1, ddof)), |v| json!({"q": v.iter().map(|&x| quant(x.g() * x.g(), qe)).collect::<Vec<_>>(), "bits": v.iter().map(|&x| bits3(x.g())).collect::<Vec<_>>(), "lane_bits": per_lane(&|l| l.weighted_std(&w1, ddof).unwrap()), "rel": rel(&v.clone().into_dyn(), &|l| l.weighted_std(&w1, ddof).unwrap())})),
            }
        }
        _ => panic!("unknown float stat {stat}"),
    };
    o.insert("out".into(), json!(outc));
    o.insert("res".into(), res);
    o.insert("shape".into(), json!(shape));
    out.push(Value::Object(o));
}

/// Integer summary statistics: exact.
fn summ_int(case: &Value, out: &mut Vec<Value>) {
    let stat = jstr(case, "stat", "");
    let r = jints(&case["r"]);
    let w = jints(&case["w"]);
    let shape = shape_of(case, r.len());
    let mut o = case.as_object().unwrap().clone();
    o.insert("ev".into(), json!("summ"));
    macro_rules! go { ($t:ty) => {{
        let xs: Vec<$t> = r.iter().map(|&v| v as $t).collect();
        let ws: Vec<$t> = w.iter().map(|&v| v as $t).collect();
        let l1 = lay_of(case, "lay1", &shape);
        let a = l1.build(&xs, |_| 77 as $t);
        let av = l1.view(&a).to_owned();
        match stat {
            "mean_int" => res_json(guarded(|| SummaryStatisticsExt::mean(&av)), |v| json!(v as i64)),
            "wsum_int" | "wmean_int" => {
                let l2 = lay_of(case, "lay2", &shape);
                let b = l2.build(&ws, |_| 55 as $t);
                let bv = l2.view(&b);
                let bo = if l2.forder { let mut t = Array::zeros(bv.raw_dim().f()); t.assign(&bv); t } else { bv.to_owned() };
                if stat == "wsum_int" { res_json(guarded(|| av.weighted_sum(&bo)), |v| json!(v as i64)) }
                else { res_json(guarded(|| av.weighted_mean(&bo)), |v| json!(v as i64)) }
            }
            "wsum_axis_int" | "wmean_axis_int" => {
                let axis = case.get("axis").and_then(|x| x.as_i64()).unwrap_or(0) as usize;
                let w1: Array1<$t> = ws.iter().cloned().collect();
                if stat == "wsum_axis_int" { res_json(guarded(|| av.weighted_sum_axis(Axis(axis), &w1)), |v| json!({"q": v.iter().map(|&x| x as i64).collect::<Vec<_>>()})) }
                else { res_json(guarded(|| av.weighted_mean_axis(Axis(axis), &w1)), |v| json!({"q": v.iter().map(|&x| x as i64).collect::<Vec<_>>()})) }
            }
            _ => panic!("unknown int stat {stat}"),
        }
    }}; }
    let (outc, res) = match jstr(case, "ty", "i32") { "i64" => go!(i64), "u8" => go!(u8), _ => go!(i32) };
    o.insert("out".into(), json!(outc));
    o.insert("res".into(), res);
    o.insert("shape".into(), json!(shape));
    out.push(Value::Object(o));
}

/// Covariance and Pearson correlation with metamorphic partners.
fn corr_ev<T: F>(case: &Value, out: &mut Vec<Value>) {
    let rows: Vec<Vec<i64>> = case["rows"].as_array().unwrap().iter().map(jints).collect();
    let s = case.get("S").and_then(|x| x.as_i64()).unwrap_or(4) as f64;
    let bexp = case.get("bexp").and_then(|x| x.as_i64()).unwrap_or(-1);
    let base = if bexp < 0 { 0.0 } else { pow2(bexp as i32) };
    let qe = jint(case, "qe");
    let d2 = jint(case, "d");
    let (nv, no) = (rows.len(), rows[0].len());
    let flat: Vec<T> = rows.iter().flat_map(|r| r.iter().map(|&v| T::f(base + v as f64 / s))).collect();
    let lay = lay_of(case, "lay1", &[nv, no]);
    let a = lay.build(&flat, |_| T::f(-777.0));
    let m = lay.view(&a).into_dimensionality::<Ix2>().unwrap();
    let mat = |r: Result<Result<Array2<T>, ndarray_stats::errors::EmptyInput>, ()>| -> (String, Value) {
        res_json(r, |v| json!(v.outer_iter().map(|row| row.iter().map(|&x| quant(x.g(), qe)).collect::<Vec<_>>()).collect::<Vec<_>>()))
    };
    let mut o = case.as_object().unwrap().clone();
    o.insert("ev".into(), json!("corr"));
    o.insert("ty".into(), json!(T::NAME));
    let (co, cv) = mat(guarded(|| m.cov(T::f(d2 as f64 / 2.0))));
    o.insert("cov_out".into(), json!(co)); o.insert("cov".into(), cv);
    // the correlation may be logged at its own resolution (pqe)
    let pqe = case.get("pqe").and_then(|x| x.as_i64()).unwrap_or(qe);
    let mat = |r: Result<Result<Array2<T>, ndarray_stats::errors::EmptyInput>, ()>| -> (String, Value) {
        res_json(r, |v| json!(v.outer_iter().map(|row| row.iter().map(|&x| quant(x.g(), pqe)).collect::<Vec<_>>()).collect::<Vec<_>>()))
    };
    let (po, pv) = mat(guarded(|| m.pearson_correlation()));
    o.insert("pear_out".into(), json!(po)); o.insert("pear".into(), pv);
    // metamorphic partners: positive affine rescaling of row k by 2^sexp and a grid shift; negation of row k
    let k = jint(case, "k") as usize;
    let sexp = jint(case, "sexp") as i32;
    let mut m2 = m.to_owned();
    for x in m2.row_mut(k).iter_mut() { *x = T::f(x.g() * pow2(sexp) + 3.0 * pow2(sexp)); }
    let (_, pv2) = mat(guarded(|| m2.pearson_correlation()));
    o.insert("pear_scaled".into(), pv2);
    let mut m3 = m.to_owned();
    for x in m3.row_mut(k).iter_mut() { *x = T::f(-x.g()); }
    let (_, pv3) = mat(guarded(|| m3.pearson_correlation()));
    o.insert("pear_neg".into(), pv3);
    out.push(Value::Object(o));
}

/// Covariance of variables of wildly different scales (non-dyadic data): entry (i, i) of the full matrix against the
/// covariance of variable i alone, and the unit diagonal of the correlation - one variable must not influence another's.
fn corrpair_ev<T: F>(case: &Value, out: &mut Vec<Value>) {
    let rows: Vec<Vec<i64>> = case["rows"].as_array().unwrap().iter().map(jints).collect();
    let rowexp = jints(&case["rowexp"]);
    let s = jint(case, "S") as f64;
    let (nv, no) = (rows.len(), rows[0].len());
    let flat: Vec<T> = rows.iter().enumerate().flat_map(|(i, r)| { let sc = pow2(rowexp[i] as i32); r.iter().map(move |&v| T::f((1.0 + v as f64 / s) * sc)).collect::<Vec<T>>() }).collect();
    let m = Array2::from_shape_vec((nv, no), flat).unwrap();
    let d = T::f(jint(case, "d") as f64 / 2.0);
    let relq = |a: f64, b: f64| -> i64 { if a.is_nan() && b.is_nan() { 0 } else if a.is_nan() || b.is_nan() { NAN_Q } else if a == b { 0 } else { let x = (a - b) / b.abs().max(f64::MIN_POSITIVE) * 1048576.0; if x.abs() > CAP { BIG_Q } else { x.round() as i64 } } };
    let mut o = case.as_object().unwrap().clone();
    o.insert("ev".into(), json!("corrpair"));
    o.insert("ty".into(), json!(T::NAME));
    let full = guarded(|| m.cov(d));
    let pear = guarded(|| m.pearson_correlation());
    let mut rel: Vec<i64> = Vec::new();
    let mut diag: Vec<i64> = Vec::new();
    let mut ok = full.is_ok() && pear.is_ok();
    if let (Ok(Ok(c)), Ok(Ok(p))) = (&full, &pear) {
        for i in 0..nv {
            let alone = guarded(|| m.slice(ndarray::s![i..i + 1, ..]).to_owned().cov(d));
            match alone { Ok(Ok(c1)) => rel.push(relq(c[[i, i]].g(), c1[[0, 0]].g())), _ => { ok = false; rel.push(ERR_Q); } }
            diag.push(relq(p[[i, i]].g(), 1.0));
        }
    } else { ok = false; }
    o.insert("out".into(), json!(if ok { "ok" } else { "failed" }));
    o.insert("rel".into(), json!(rel));
    o.insert("diag".into(), json!(diag));
    out.push(Value::Object(o));
}

/// Deviation measures on a pair of arrays in independent layouts; plus swapped and identical arguments.
fn dev_ev(case: &Value, out: &mut Vec<Value>) {
    let a = jints(&case["a"]);
    let b = jints(&case["b"]);
    let shape = shape_of(case, a.len());
    let ty = jstr(case, "ty", "i32");
    let qe = jint(case, "qe");
    let maxv = jint(case, "maxv");
    let mut o = case.as_object().unwrap().clone();
    o.insert("ev".into(), json!("dev"));
    let (l1, l2) = (lay_of(case, "lay1", &shape), lay_of(case, "lay2", &shape));
    let alias = jstr(case, "alias", "");
    macro_rules! measures { ($x:expr, $y:expr, $toi:expr, $tof:expr, $mv:expr, $hi:expr, $neg:expr) => {{
        let (x, y) = ($x, $y);
        let f = |r: Result<Result<f64, ndarray_stats::errors::MultiInputError>, ()>, sq: bool| -> Value { match r { Ok(Ok(v)) => quant(if sq { v * v } else { v }, qe), Ok(Err(_)) => json!(ERR_Q), Err(()) => json!(ERR_Q) } };
        json!({
            "count_eq": match guarded(|| x.count_eq(&y)) { Ok(Ok(v)) => json!(v), _ => json!(-1) },
            "count_neq": match guarded(|| x.count_neq(&y)) { Ok(Ok(v)) => json!(v), _ => json!(-1) },
            "sq": match guarded(|| x.sq_l2_dist(&y)) { Ok(Ok(v)) => $toi(v, 2), _ => json!(ERR_Q) },
            "l1": match guarded(|| x.l1_dist(&y)) { Ok(Ok(v)) => $toi(v, 1), _ => json!(ERR_Q) },
            "linf": match guarded(|| x.linf_dist(&y)) { Ok(Ok(v)) => $toi(v, 1), _ => json!(ERR_Q) },
            "l2sq": f(guarded(|| x.l2_dist(&y)), true),
            "mae": f(guarded(|| x.mean_abs_err(&y)), false),
            "mse": f(guarded(|| x.mean_sq_err(&y)), false),
            "rmse2": f(guarded(|| x.root_mean_sq_err(&y)), true),
            "psnr": f(guarded(|| x.peak_signal_to_noise_ratio(&y, $mv)), false),
            "psnr_hi": f(guarded(|| x.peak_signal_to_noise_ratio(&y, $hi)), false),
            "psnr_neg": f(guarded(|| x.peak_signal_to_noise_ratio(&y, $neg)), false),
        })
    }}; }
    macro_rules! int_ty { ($t:ty, $hik:expr) => {{
        // optional large common offset 2^ibase (differences stay small and exact)
        let ibase = case.get("ibase").and_then(|x| x.as_i64()).unwrap_or(-1);
        let mut off = <$t>::from(0i32);
        if ibase >= 0 { off = <$t>::from(1i32); for _ in 0..ibase { off = off.clone() + off.clone(); } }
        let xa: Vec<$t> = a.iter().map(|&v| off.clone() + <$t>::from(v as i32)).collect();
        let xb: Vec<$t> = b.iter().map(|&v| off.clone() + <$t>::from(v as i32)).collect();
        let (pa, pb) = (l1.build(&xa, |_| <$t>::from(77i32)), l2.build(&xb, |_| <$t>::from(55i32)));
        let (va, vb) = (l1.view(&pa), l2.view(&pb));
        let toi = |v: $t, _pow: i32| -> Value { json!(num_traits::ToPrimitive::to_i64(&v).unwrap_or(-1)) };
        let mv = <$t>::from(maxv as i32);
        // the same peak scaled by 10^hik: the ratio moves by exactly 20 hik dB (and maxv^2 no longer fits the element type)
        let mut hi = mv.clone();
        for _ in 0..$hik { hi = hi * <$t>::from(10i32); }
        o.insert("hik".into(), json!($hik));
        o.insert("fwd".into(), measures!(va.clone(), vb.clone(), toi, 0, mv.clone(), hi.clone(), <$t>::from(0i32) - mv.clone()));
        o.insert("swp".into(), measures!(vb.clone(), va.clone(), toi, 0, mv.clone(), hi.clone(), <$t>::from(0i32) - mv.clone()));
        o.insert("same".into(), measures!(va.clone(), va.to_owned(), toi, 0, mv.clone(), hi.clone(), <$t>::from(0i32) - mv.clone()));
        o.insert("S".into(), json!(1));
    }}; }
    macro_rules! float_ty { ($t:ty, $hik:expr) => {{
        let xa: Vec<$t> = a.iter().map(|&v| v as $t / 4.0).collect();
        let xb: Vec<$t> = b.iter().map(|&v| v as $t / 4.0).collect();
        let (pa, pb) = (l1.build(&xa, |_| 77.0 as $t), l2.build(&xb, |_| 55.0 as $t));
        let (va, vb) = (l1.view(&pa), l2.view(&pb));
        let toi = |v: $t, pow: i32| -> Value { quant(v as f64, if pow == 2 { 4 } else { 2 }) };
        let mv = maxv as $t / 4.0;
        // the ratio is scale invariant: both signals and the peak scaled by 2^-40 (a mean squared error far below machine epsilon)
        let sc = (2.0 as $t).powi(-40);
        let small = guarded(|| va.mapv(|x| x * sc).peak_signal_to_noise_ratio(&vb.mapv(|x| x * sc), mv * sc));
        o.insert("psnr_small".into(), match small { Ok(Ok(v)) => quant(v, qe), _ => json!(ERR_Q) });
        let hi = mv * (10.0 as $t).powi($hik);
        o.insert("hik".into(), json!($hik));
        o.insert("fwd".into(), measures!(va.clone(), vb.clone(), toi, 0, mv, hi, -mv));
        o.insert("swp".into(), measures!(vb.clone(), va.clone(), toi, 0, mv, hi, -mv));
        o.insert("same".into(), measures!(va.clone(), va.to_owned(), toi, 0, mv, hi, -mv));
        o.insert("S".into(), json!(4));
    }}; }
    // two different views of ONE buffer starting at the same element (the case says how b is derived from a's buffer)
    macro_rules! alias_ty { ($t:ty, $mk:expr, $toi:expr, $mv:expr, $s:expr) => {{
        let base: Vec<$t> = jints(&case["base"]).iter().map(|&v| $mk(v)).collect();
        let toi = $toi;
        if alias == "t" {
            let k = (base.len() as f64).sqrt() as usize;
            let m = Array2::from_shape_vec((k, k), base).unwrap();
            o.insert("fwd".into(), measures!(m.view(), m.t(), toi, 0, $mv, $mv, -$mv));
            o.insert("swp".into(), measures!(m.t(), m.view(), toi, 0, $mv, $mv, -$mv));
            o.insert("same".into(), measures!(m.view(), m.view(), toi, 0, $mv, $mv, -$mv));
        } else {
            let m = Array1::from(base);
            let h = m.len() / 2;
            let (va, vb) = (m.slice(ndarray::s![..h]), m.slice(ndarray::s![..2 * h;2]));
            o.insert("fwd".into(), measures!(va.clone(), vb.clone(), toi, 0, $mv, $mv, -$mv));
            o.insert("swp".into(), measures!(vb.clone(), va.clone(), toi, 0, $mv, $mv, -$mv));
            o.insert("same".into(), measures!(va.clone(), va.clone(), toi, 0, $mv, $mv, -$mv));
        }
        o.insert("S".into(), json!($s));
        o.insert("hik".into(), json!(0));
    }}; }
    if !alias.is_empty() {
        match ty {
            "f64" => alias_ty!(f64, |v: i64| v as f64 / 4.0, |v: f64, pow: i32| -> Value { quant(v, if pow == 2 { 4 } else { 2 }) }, maxv as f64 / 4.0, 4),
            _ => alias_ty!(i64, |v: i64| v, |v: i64, _p: i32| -> Value { json!(v) }, maxv, 1),
        }
    } else {
    match ty {
        "i32" => int_ty!(i32, 3),
        "i64" => int_ty!(i64, 9),
        "bigint" => int_ty!(num_bigint::BigInt, 9),
        "f32" => float_ty!(f32, 3),
        _ => float_ty!(f64, 9),
    }
    }
    o.insert("shape".into(), json!(shape));
    out.push(Value::Object(o));
}

/// Entropy family on dyadic distributions a/2^m, b/2^m with NaN / negative placements.
fn ent_ev<T: F>(case: &Value, out: &mut Vec<Value>) {
    let a = jints(&case["a"]);
    let b = jints(&case["b"]);
    let m = jint(case, "m");
    let qe = jint(case, "qe");
    let shape = shape_of(case, a.len());
    let den = pow2(m as i32);
    // codes: -1 = NaN, -2 = a negative value (q only)
    let mk = |v: i64| -> T { if v == -1 { T::nan() } else if v == -2 { T::f(-0.25) } else { T::f(v as f64 / den) } };
    let (l1, l2) = (lay_of(case, "lay1", &shape), lay_of(case, "lay2", &shape));
    // optional extra binary exponents of p: p_i = a_i / 2^(m + ax_i), far into the subnormal range (a term that is zero at
    // any resolution, but not a zero of p)
    let ax = jints(&case["ax"]);
    let pvals: Vec<T> = a.iter().enumerate().map(|(k, &v)| { let e = ax.get(k).copied().unwrap_or(0); if v > 0 && e > 0 { T::f(v as f64 / den * pow2(-(e as i32))) } else { mk(v) } }).collect();
    let pa = l1.build(&pvals, |_| T::f(0.5));
    // optional extra binary exponents of q: q_i = b_i / 2^(m + bx_i) (probabilities far below p_i, still exactly representable)
    let bx = jints(&case["bx"]);
    let qv: Vec<T> = b.iter().enumerate().map(|(k, &v)| { let e = bx.get(k).copied().unwrap_or(0); if v > 0 && e > 0 { T::f(v as f64 / den * pow2(-(e as i32))) } else { mk(v) } }).collect();
    let pb = l2.build(&qv, |_| T::f(0.25));
    let (va, vb) = (l1.view(&pa), l2.view(&pb));
    let cls = |x: T| -> Value { let v = x.g(); if v.is_nan() { json!({"c": "nan", "q": 0}) } else if v == f64::INFINITY { json!({"c": "inf", "q": 0}) } else if v == f64::NEG_INFINITY { json!({"c": "ninf", "q": 0}) } else { json!({"c": "fin", "q": quant(v, qe)}) } };
    let mut o = case.as_object().unwrap().clone();
    o.insert("ev".into(), json!("ent"));
    o.insert("ty".into(), json!(T::NAME));
    o.insert("H".into(), match guarded(|| va.entropy()) { Ok(Ok(v)) => cls(v), _ => json!({"c": "error", "q": 0}) });
    o.insert("Hq".into(), match guarded(|| vb.entropy()) { Ok(Ok(v)) => cls(v), _ => json!({"c": "error", "q": 0}) });
    o.insert("CE".into(), match guarded(|| va.cross_entropy(&vb)) { Ok(Ok(v)) => cls(v), _ => json!({"c": "error", "q": 0}) });
    o.insert("KL".into(), match guarded(|| va.kl_divergence(&vb)) { Ok(Ok(v)) => cls(v), _ => json!({"c": "error", "q": 0}) });
    o.insert("KLself".into(), match guarded(|| va.kl_divergence(&va.to_owned())) { Ok(Ok(v)) => cls(v), _ => json!({"c": "error", "q": 0}) });
    // KL is homogeneous of degree one: both operands scaled by 2^kexp (towards the top of the type's range), result scaled back
    let kexp = case.get("kexp").and_then(|x| x.as_i64()).unwrap_or(0) as i32;
    let c = T::f(pow2(kexp));
    let (sa, sb) = (va.mapv(|x| x * c), vb.mapv(|x| x * c));
    o.insert("KLs".into(), match guarded(|| sa.kl_divergence(&sb)) { Ok(Ok(v)) => cls(T::f(v.g() * pow2(-kexp))), _ => json!({"c": "error", "q": 0}) });
    o.insert("shape".into(), json!(shape));
    out.push(Value::Object(o));
}

/// count_eq / count_neq on float arrays containing NaN (code 99), incl. operands aliasing the same memory.
fn devnan_ev(case: &Value, out: &mut Vec<Value>) {
    let a = jints(&case["a"]);
    let b = jints(&case["b"]);
    let shape = shape_of(case, a.len());
    let (l1, l2) = (lay_of(case, "lay1", &shape), lay_of(case, "lay2", &shape));
    let mk = |v: i64| -> f64 { if v == 99 { nan64() } else if v == 98 || v == 97 { f64::INFINITY } else { v as f64 / 4.0 } };
    let (pa, pb) = (l1.build(&a.iter().map(|&v| mk(v)).collect::<Vec<_>>(), |_| 77.0), l2.build(&b.iter().map(|&v| mk(v)).collect::<Vec<_>>(), |_| 55.0));
    let (va, vb) = (l1.view(&pa), l2.view(&pb));
    let c = |r: Result<Result<usize, ndarray_stats::errors::MultiInputError>, ()>| -> i64 { match r { Ok(Ok(v)) => v as i64, _ => -1 } };
    let mut o = case.as_object().unwrap().clone();
    o.insert("ev".into(), json!("devnan"));
    o.insert("eq_ab".into(), json!(c(guarded(|| va.count_eq(&vb)))));
    o.insert("neq_ab".into(), json!(c(guarded(|| va.count_neq(&vb)))));
    o.insert("eq_ba".into(), json!(c(guarded(|| vb.count_eq(&va)))));
    o.insert("eq_alias".into(), json!(c(guarded(|| va.count_eq(&va.clone())))));          // the same memory, the same layout
    o.insert("neq_alias".into(), json!(c(guarded(|| va.count_neq(&l1.view(&pa))))));
    o.insert("eq_copy".into(), json!(c(guarded(|| va.count_eq(&va.to_owned())))));
    // max / sum of the differences do not depend on where a pair sits: the operands as given, both reversed, both rotated by one
    let fa: Vec<f64> = va.iter().cloned().collect();
    let fb: Vec<f64> = vb.iter().cloned().collect();
    let n = fa.len();
    let variants: Vec<(Array1<f64>, Array1<f64>)> = vec![
        (Array1::from(fa.clone()), Array1::from(fb.clone())),
        (Array1::from(fa.iter().rev().cloned().collect::<Vec<_>>()), Array1::from(fb.iter().rev().cloned().collect::<Vec<_>>())),
        (Array1::from((0..n).map(|k| fa[(k + 1) % n]).collect::<Vec<_>>()), Array1::from((0..n).map(|k| fb[(k + 1) % n]).collect::<Vec<_>>())),
    ];
    let f = |r: Result<Result<f64, ndarray_stats::errors::MultiInputError>, ()>| -> Value { match r { Ok(Ok(v)) => quant(v, 2), _ => json!(ERR_Q) } };
    let mut linf = vec![f(guarded(|| va.linf_dist(&vb)))];
    let mut l1 = vec![f(guarded(|| va.l1_dist(&vb)))];
    let mut sq = vec![f(guarded(|| va.sq_l2_dist(&vb)))];
    for (x, y) in &variants { linf.push(f(guarded(|| x.linf_dist(y)))); l1.push(f(guarded(|| x.l1_dist(y)))); sq.push(f(guarded(|| x.sq_l2_dist(y)))); }
    o.insert("linf".into(), json!(linf));
    o.insert("l1".into(), json!(l1));
    o.insert("sq".into(), json!(sq));
    out.push(Value::Object(o));
}

/// Distances of operands scaled towards the ends of the range: l1 / linf (and the counts) stay exact, l2 stays finite and
/// below l1 where nothing overflows.
fn devscale_ev(case: &Value, out: &mut Vec<Value>) {
    let a = jints(&case["a"]);
    let b = jints(&case["b"]);
    let shape = shape_of(case, a.len());
    let ty = jstr(case, "ty", "f64");
    let dexp = jint(case, "dexp") as i32;
    let (l1, l2) = (lay_of(case, "lay1", &shape), lay_of(case, "lay2", &shape));
    let mut o = case.as_object().unwrap().clone();
    let unscale = |v: f64| -> i64 { let h = -dexp / 2; let r = v * pow2(h) * pow2(-dexp - h) * 4.0; if r.is_finite() && r.abs() < 1e9 { r.round() as i64 } else { ERR_Q } };
    macro_rules! fl { ($t:ty) => {{
        let xa: Vec<$t> = a.iter().map(|&v| (v as f64 / 4.0 * pow2(dexp)) as $t).collect();
        let xb: Vec<$t> = b.iter().map(|&v| (v as f64 / 4.0 * pow2(dexp)) as $t).collect();
        let (pa, pb) = (l1.build(&xa, |_| 77.0 as $t), l2.build(&xb, |_| 55.0 as $t));
        let (va, vb) = (l1.view(&pa), l2.view(&pb));
        let g = |r: Result<Result<$t, ndarray_stats::errors::MultiInputError>, ()>| -> i64 { match r { Ok(Ok(v)) => unscale(v as f64), _ => ERR_Q } };
        o.insert("ceq".into(), json!(match guarded(|| va.count_eq(&vb)) { Ok(Ok(v)) => v as i64, _ => -1 }));
        o.insert("l1q".into(), json!(g(guarded(|| va.l1_dist(&vb)))));
        o.insert("linfq".into(), json!(g(guarded(|| va.linf_dist(&vb)))));
        o.insert("l1s".into(), json!(g(guarded(|| vb.l1_dist(&va)))));
        o.insert("linfs".into(), json!(g(guarded(|| vb.linf_dist(&va)))));
        let n = a.len() as f64;
        o.insert("maeq".into(), json!(match guarded(|| va.mean_abs_err(&vb)) { Ok(Ok(v)) => unscale(v * n), _ => ERR_Q }));
        let l1f: f64 = match guarded(|| va.l1_dist(&vb)) { Ok(Ok(v)) => v as f64, _ => f64::NAN };
        let (c, le) = match guarded(|| va.l2_dist(&vb)) { Ok(Ok(v)) => (if v.is_nan() { "nan" } else if v.is_infinite() { "inf" } else { "fin" }, v >= 0.0 && v <= l1f * (1.0 + 1e-6)), _ => ("err", false) };
        o.insert("l2c".into(), json!(c));
        o.insert("l2le".into(), json!(le));
    }}; }
    macro_rules! it { ($t:ty) => {{
        let m: $t = (10 as $t).pow(dexp as u32);
        let xa: Vec<$t> = a.iter().map(|&v| v as $t * m).collect();
        let xb: Vec<$t> = b.iter().map(|&v| v as $t * m).collect();
        let (pa, pb) = (l1.build(&xa, |_| 77 as $t), l2.build(&xb, |_| 55 as $t));
        let (va, vb) = (l1.view(&pa), l2.view(&pb));
        let g = |r: Result<Result<$t, ndarray_stats::errors::MultiInputError>, ()>| -> i64 { match r { Ok(Ok(v)) if v % m == 0 => (v / m) as i64, _ => ERR_Q } };
        o.insert("ceq".into(), json!(match guarded(|| va.count_eq(&vb)) { Ok(Ok(v)) => v as i64, _ => -1 }));
        o.insert("l1q".into(), json!(g(guarded(|| va.l1_dist(&vb)))));
        o.insert("linfq".into(), json!(g(guarded(|| va.linf_dist(&vb)))));
        o.insert("l1s".into(), json!(g(guarded(|| vb.l1_dist(&va)))));
        o.insert("linfs".into(), json!(g(guarded(|| vb.linf_dist(&va)))));
        o.insert("maeq".into(), json!(0));
        o.insert("l2c".into(), json!("na"));
        o.insert("l2le".into(), json!(true));
    }}; }
    match ty { "f32" => fl!(f32), "f64" => fl!(f64), "i32" => it!(i32), _ => it!(i64) }
    o.insert("shape".into(), json!(shape));
    out.push(Value::Object(o));
}

/// Distances and their means on narrow integer arrays with more elements than the element type can count.
fn devnarrow_ev(case: &Value, out: &mut Vec<Value>) {
    let a = jints(&case["a"]);
    let b = jints(&case["b"]);
    let shape = shape_of(case, a.len());
    let (l1, l2) = (lay_of(case, "lay1", &shape), lay_of(case, "lay2", &shape));
    let mut o = case.as_object().unwrap().clone();
    let n = a.len() as f64;
    macro_rules! go { ($t:ty) => {{
        let xa: Vec<$t> = a.iter().map(|&v| v as $t).collect();
        let xb: Vec<$t> = b.iter().map(|&v| v as $t).collect();
        let (pa, pb) = (l1.build(&xa, |_| 77 as $t), l2.build(&xb, |_| 55 as $t));
        let (va, vb) = (l1.view(&pa), l2.view(&pb));
        let gi = |r: Result<Result<$t, ndarray_stats::errors::MultiInputError>, ()>| -> i64 { match r { Ok(Ok(v)) => v as i64, _ => ERR_Q } };
        let gf = |r: Result<Result<f64, ndarray_stats::errors::MultiInputError>, ()>, k: f64| -> i64 { match r { Ok(Ok(v)) if v.is_finite() => (v * k * 1024.0).round() as i64, _ => ERR_Q } };
        o.insert("ceq".into(), json!(match guarded(|| va.count_eq(&vb)) { Ok(Ok(v)) => v as i64, _ => -1 }));
        o.insert("cneq".into(), json!(match guarded(|| va.count_neq(&vb)) { Ok(Ok(v)) => v as i64, _ => -1 }));
        o.insert("sq".into(), json!(gi(guarded(|| va.sq_l2_dist(&vb)))));
        o.insert("l1".into(), json!(gi(guarded(|| va.l1_dist(&vb)))));
        o.insert("linf".into(), json!(gi(guarded(|| va.linf_dist(&vb)))));
        // n * mean_abs_err and n * mean_sq_err in units of 2^-10
        o.insert("maen".into(), json!(gf(guarded(|| va.mean_abs_err(&vb)), n)));
        o.insert("msen".into(), json!(gf(guarded(|| va.mean_sq_err(&vb)), n)));
        // n * rmse^2
        o.insert("rmse2n".into(), json!(match guarded(|| va.root_mean_sq_err(&vb)) { Ok(Ok(v)) if v.is_finite() => (v * v * n * 1024.0).round() as i64, _ => ERR_Q }));
    }}; }
    match jstr(case, "ty", "i8") { "i8" => go!(i8), "i16" => go!(i16), _ => go!(i32) }
    o.insert("shape".into(), json!(shape));
    out.push(Value::Object(o));
}

pub fn run(case: &Value, _params: &Params, out: &mut Vec<Value>) {
    let ev = jstr(case, "ev", "");
    let ty = jstr(case, "ty", "f64");
    if ev == "devnan" { return devnan_ev(case, out); }
    if ev == "devscale" { return devscale_ev(case, out); }
    if ev == "devnarrow" { return devnarrow_ev(case, out); }
    match ev {
        "summ" => match ty { "f32" => summ_float::<f32>(case, out), "f64" => summ_float::<f64>(case, out), _ => summ_int(case, out) },
        "corr" => match ty { "f32" => corr_ev::<f32>(case, out), _ => corr_ev::<f64>(case, out) },
        "corrpair" => match ty { "f32" => corrpair_ev::<f32>(case, out), _ => corrpair_ev::<f64>(case, out) },
        "dev" => dev_ev(case, out),
        "ent" => match ty { "f32" => ent_ev::<f32>(case, out), _ => ent_ev::<f64>(case, out) },
        _ => panic!("unknown num event {ev}"),
    }
}

// --------------------------------------------------------------------------- generators

fn two_lays(rng: &mut Rng, shape: &[usize]) -> (Value, Value) {
    let f1 = rng.chance(1, 2); let f2 = rng.chance(1, 2);
    (random_lay(rng, shape, f1).to_json(), random_lay(rng, shape, f2).to_json())
}
fn random_shape(rng: &mut Rng, n: usize) -> Vec<usize> {
    // a factorisation of n into 1..3 axes
    let mut opts: Vec<Vec<usize>> = vec![vec![n]];
    for a in 2..=n { if n % a == 0 && n / a > 1 { opts.push(vec![a, n / a]); for c in 2..=(n / a) { if (n / a) % c == 0 && (n / a) / c > 1 { opts.push(vec![a, c, n / a / c]); } } } }
    rng.pick(&opts).clone()
}

pub fn gen(seed: u64, count: usize, tier: &str, params: &Params) -> Vec<Value> {
    let mut rng = Rng(seed ^ 0x4e55);
    let kinds: Vec<&str> = params.get("kinds").map(|s| s.split('/').collect()).unwrap_or_else(|| vec!["c06", "c07", "corr", "dev", "ent"]);
    let big = tier == "thorough";
    let mut cases = Vec::new();
    for _ in 0..count {
        match *rng.pick(&kinds) {
            "c06" => {
                let stat = *rng.pick(&["mean", "mean", "wsum", "wmean", "harmonic", "geometric", "wsum_axis", "wmean_axis", "mean_int", "wsum_int", "wmean_int", "wsum_axis_int", "wmean_axis_int"]);
                // now and then a long array (blocked / unrolled accumulation has its corner cases beyond a block length)
                let long = rng.chance(1, 10) && matches!(stat, "mean" | "wsum" | "wmean" | "mean_int" | "wsum_int" | "wmean_int" | "geometric" | "harmonic");
                // ... and beyond a thousand elements for the plain mean (a blocked mean must weight an uneven last block correctly)
                let vlong = long && matches!(stat, "mean" | "mean_int") && rng.chance(1, 3);
                let n = if vlong { *rng.pick(&[1025usize, 1100, 1536, 2049, 2050]) } else if long { *rng.pick(&[127usize, 128, 129, 130, 131, 255, 257, 300]) } else { rng.range(1, if big { 12 } else { 8 }) as usize };
                let ty = if stat.ends_with("_int") { *rng.pick(&["i32", "i64", "u8"]) } else { *rng.pick(&["f64", "f64", "f32"]) };
                let f32ty = ty == "f32";
                // u8 can neither hold an element count above 255 nor larger sums: stay inside the property's no-overflow domain
                let n = if ty == "u8" && n > 131 { 131 } else { n };
                let shape = if long { vec![n] } else { random_shape(&mut rng, n) };
                let (lay1, lay2) = two_lays(&mut rng, &shape);
                let rmax = if ty == "u8" { if long { 1 } else { 10 } } else if long { 8 } else { 40 };
                let gstyle = rng.below(4);
                let glim: i64 = if f32ty { 120 } else { 1000 };
                let mut r: Vec<i64> = (0..n).map(|_| match stat { "harmonic" => rng.range(1, 8),
                                                               "geometric" => match gstyle { 1 => rng.range(glim - glim / 5, glim), 2 => rng.range(-glim, -glim + glim / 5), _ => rng.range(-glim, glim) },
                                                               _ => if ty == "u8" { rng.range(0, rmax) } else { rng.range(-rmax, rmax) } }).collect();
                if stat == "geometric" && gstyle == 3 { r.sort(); r.reverse(); }
                let axis = rng.below(shape.len() as u64) as usize;
                let wl = if stat.ends_with("_axis") || stat.ends_with("_axis_int") { shape[axis] } else { n };
                let mut w: Vec<i64> = (0..wl).map(|_| rng.range(0, if ty == "u8" && long { 1 } else { 4 })).collect();
                if w.iter().sum::<i64>() == 0 { w[0] = 1; }
                let bexp = if matches!(stat, "mean" | "wmean" | "wmean_axis") && !f32ty && !long { *rng.pick(&[-1i64, -1, 10, 20, 30]) } else { -1 };
                // data scaled by an exact power of two: the means scale with it (neighbouring products leave the range, the values do not)
                let sexp: i64 = if matches!(stat, "harmonic" | "mean") && bexp < 0 { if f32ty { *rng.pick(&[0i64, 0, 62, -62, 100, -100]) } else { *rng.pick(&[0i64, 0, 520, -520, 900, -900]) } } else { 0 };
                cases.push(json!({"ev": "summ", "stat": stat, "ty": ty, "r": r, "w": w, "S": if stat == "harmonic" || stat.ends_with("_int") { 1 } else { 4 }, "WS": *rng.pick(&[1i64, 4]),
                                  "sexp": sexp, "bexp": bexp, "wexp": if matches!(stat, "wsum" | "wmean") { if f32ty { *rng.pick(&[0i64, 0, -60, 40]) } else { *rng.pick(&[0i64, 0, -80, -200, 60]) } } else { 0 },
                                  "qe": if f32ty { 8 } else if long { 10 } else { 14 }, "tol": 2, "shape": shape, "axis": axis, "lay1": lay1, "lay2": lay2,
                                  "wlay": *rng.pick(&["plain", "rev", "step"])}));
            }
            "c07" => {
                let stat = *rng.pick(&["wvar", "wvar", "wstd", "moment", "moment", "moments", "skew", "kurt", "wvar_axis", "wstd_axis"]);
                let ty = *rng.pick(&["f64", "f64", "f64", "f32"]);
                let f32ty = ty == "f32";
                match stat {
                    "wvar" | "wstd" | "wvar_axis" | "wstd_axis" => {
                        let n = rng.range(1, 6) as usize;
                        let shape = if stat.ends_with("_axis") { random_shape(&mut rng, n) } else { random_shape(&mut rng, n) };
                        let axis = rng.below(shape.len() as u64) as usize;
                        let (lay1, lay2) = two_lays(&mut rng, &shape);
                        let r: Vec<i64> = (0..n).map(|_| rng.range(-16, 16)).collect();
                        let wl = if stat.ends_with("_axis") { shape[axis] } else { n };
                        let mut w: Vec<i64> = (0..wl).map(|_| rng.range(0, 4)).collect();
                        // positive total weight; weight sum must exceed ddof
                        if w.iter().sum::<i64>() < 2 { w[wl - 1] = 2; }
                        let mut r = r;
                        // an observation of weight zero may hold anything - e.g. a huge value - without influencing the result
                        if !stat.ends_with("_axis") && w[0] == 0 && rng.chance(1, 2) { r[0] = if rng.chance(1, 2) { (1 << 29) - 1 } else { -(1 << 29) + 1 }; }
                        let huge0 = !stat.ends_with("_axis") && w[0] == 0 && r[0].abs() > 1000 && rng.chance(1, 2);
                        let d = rng.range(0, 2);
                        // the variance with ddof = 0 does not change when all weights are scaled by a power of two
                        let wexp: i64 = if d == 0 { if f32ty { *rng.pick(&[0i64, 0, -60, 40]) } else { *rng.pick(&[0i64, 0, -80, -200, 60]) } } else { 0 };
                        let bexp = if f32ty { -1 } else { *rng.pick(&[-1i64, -1, 10, 20]) };
                        // weights whose reciprocal is inexact (w * (1 / w) != 1 in binary floating point: 41, 47, 49, 55, 98, 103, 107) on data
                        // offset by 2^26 / 2^30 (f32: 2^11): a mean that starts one ulp off the first observation shows up as x^2 * eps
                        if rng.chance(1, 5) && r.len() <= 4 {
                            let r: Vec<i64> = r.iter().map(|&v| v.clamp(-4, 4)).collect();
                            let w: Vec<i64> = (0..wl).map(|_| *rng.pick(&[41i64, 47, 49, 55, 98, 103, 107])).collect();
                            cases.push(json!({"ev": "summ", "stat": stat, "ty": ty, "r": r, "w": w, "S": 4, "WS": 1, "d": d, "wexp": 0, "bexp": if f32ty { 11 } else { *rng.pick(&[26i64, 30]) }, "huge0": false,
                                              "qe": if f32ty { 5 } else { 7 }, "tol": 2, "shape": shape, "axis": axis, "lay1": lay1, "lay2": lay2,
                                              "wlay": *rng.pick(&["plain", "rev", "step"])}));
                            continue;
                        }
                        cases.push(json!({"ev": "summ", "stat": stat, "ty": ty, "r": r, "w": w, "S": 4, "WS": 1, "d": d, "wexp": wexp, "bexp": bexp, "huge0": huge0,
                                          "qe": if f32ty { 6 } else { 12 }, "tol": 2, "shape": shape, "axis": axis, "lay1": lay1, "lay2": lay2,
                                          "wlay": *rng.pick(&["plain", "rev", "step"])}));
                    }
                    _ => {
                        // moments: tiny integer data so that the exact numerators fit; large offsets for orders 2..4
                        let p = if stat == "moment" || stat == "moments" { rng.range(0, 8) } else { 4 };
                        let (n, rmax, qe): (usize, i64, i64) = if p <= 3 { (*rng.pick(&[1usize, 2, 3, 3, 3, 4]), 3, 16) } else if p == 4 { (rng.range(1, 4) as usize, 2, 10) } else { (rng.range(1, 3) as usize, 2, 6) };
                        let (n, rmax, qe) = if stat == "skew" || stat == "kurt" { (rng.range(2, 4) as usize, 2, 8) } else { (n, rmax, qe) };
                        let mut r: Vec<i64> = (0..n).map(|_| rng.range(0, rmax)).collect();
                        if (stat == "skew" || stat == "kurt") && r.iter().all(|&v| v == r[0]) { r[0] = (r[0] + 1) % (rmax + 1); }
                        let shape = random_shape(&mut rng, n);
                        let (lay1, lay2) = two_lays(&mut rng, &shape);
                        let bexp = if f32ty || p > 4 { -1 } else { *rng.pick(&[-1i64, -1, 20, 30, 40, 45]) };
                        // scale by an exact power of two: skewness and kurtosis are scale-invariant, mu_p scales by 2^(p*sexp)
                        let sexp: i64 = if bexp >= 0 { 0 } else if f32ty { *rng.pick(&[0i64, 0, 24, -28]) } else { *rng.pick(&[0i64, 0, 60, 180, -180]) };
                        let sexp = if (stat == "moment" || stat == "moments") && p as i64 * sexp.abs() > 900 { 0 } else if (stat == "moment" || stat == "moments") && f32ty && p as i64 * sexp.abs() > 100 { 0 } else { sexp };
                        // orders 0 and 1 are the constants 1 and 0 for all finite data: also where the sum of the observations overflows
                        let (r, sexp, bexp) = if (stat == "moment" || stat == "moments") && p <= 1 && rng.chance(1, 3) { (r.iter().map(|&v| v.max(1)).collect::<Vec<i64>>(), if f32ty { 126 } else { 1022 }, -1) } else { (r, sexp, bexp) };
                        cases.push(json!({"ev": "summ", "stat": stat, "ty": ty, "r": r, "w": [], "S": 1, "WS": 1, "p": p, "bexp": bexp, "sexp": sexp,
                                          "qe": if f32ty { qe.min(6) } else { qe }, "tol": if p <= 3 && !f32ty { 1 } else { 2 }, "shape": shape, "axis": 0, "lay1": lay1, "lay2": lay2}));
                    }
                }
            }
            "c18w" => {
                // per-axis weighted forms vs the whole-array routine per lane under unusual weights: fractional weights whose sum
                // is below ddof (negative variance, NaN standard deviation), negative and all-zero weights.  Only the
                // bit-for-bit agreement of the two routines is judged (C18).
                let n = rng.range(1, 8) as usize;
                let shape = random_shape(&mut rng, n);
                let axis = rng.below(shape.len() as u64) as usize;
                let (lay1, lay2) = two_lays(&mut rng, &shape);
                let r: Vec<i64> = (0..n).map(|_| rng.range(-16, 16)).collect();
                let wl = shape[axis];
                let w: Vec<i64> = match rng.below(4) { 0 => (0..wl).map(|_| rng.range(0, 1)).collect(), 1 => (0..wl).map(|_| rng.range(-3, 3)).collect(),
                                                       2 => vec![0; wl], _ => (0..wl).map(|_| rng.range(0, 5)).collect() };
                let ty = *rng.pick(&["f64", "f64", "f32"]);
                // sometimes an infinite or NaN observation (under a zero weight as often as not)
                // ddof = NaN is accepted by the documented test "less than zero or greater than one" in both forms
                let dnan = rng.chance(1, 10);
                let specials: Vec<Value> = if rng.chance(1, 3) { (0..rng.range(1, 2)).map(|_| json!([rng.below(n as u64), rng.range(1, 3)])).collect() } else { vec![] };
                cases.push(json!({"ev": "summ", "stat": *rng.pick(&["wsum_axis", "wmean_axis", "wvar_axis", "wstd_axis", "wstd_axis"]), "ty": ty, "r": r, "w": w, "S": 4, "specials": specials,
                                  "WS": *rng.pick(&[1i64, 4, 4, 16]), "d": rng.range(0, 2), "dnan": dnan, "wexp": 0, "bexp": -1, "qe": 4, "tol": 2, "shape": shape, "axis": axis, "pair_only": true,
                                  "lay1": lay1, "lay2": lay2, "wlay": *rng.pick(&["plain", "rev", "step"])}));
            }
            "axpair" => {
                // per-axis forms against the whole-array routine per lane on NON-dyadic data (v/3, v/10, v/7) whose lanes sit at very
                // different magnitudes, >= 2 lanes, any layout: only the agreement of the two routines is judged
                let nd = rng.range(2, 4) as usize;
                let mut shape: Vec<usize> = (0..nd).map(|_| rng.range(2, if nd == 4 { 3 } else { 4 }) as usize).collect();
                let axis = rng.below(nd as u64) as usize;
                // sometimes lanes of 8..20 elements (beyond the width of unrolled reductions)
                if nd == 2 && rng.chance(1, 3) { shape[axis] = rng.range(8, 20) as usize; }
                let n: usize = shape.iter().product();
                let (lay1, lay2) = two_lays(&mut rng, &shape);
                let offs = [0i64, 1000, 1_000_000, 500_000_000];
                // the offset depends on the position along the OTHER axes (so lanes differ in magnitude)
                let r: Vec<i64> = (0..n).map(|t| { let mut rem = t; let mut key = 0usize; for k in (0..nd).rev() { let c = rem % shape[k]; rem /= shape[k]; if k != axis { key = key * 5 + c; } }
                                                    offs[(key * 7 + 1) % 4] + rng.range(-40, 40) }).collect();
                let wl = shape[axis];
                let mut w: Vec<i64> = (0..wl).map(|_| rng.range(0, 9)).collect();
                if w.iter().sum::<i64>() < 2 { w[wl - 1] = 3; }
                let ty = *rng.pick(&["f64", "f64", "f32"]);
                cases.push(json!({"ev": "summ", "stat": *rng.pick(&["wsum_axis", "wmean_axis", "wvar_axis", "wvar_axis", "wstd_axis"]), "ty": ty, "r": r, "w": w, "S": *rng.pick(&[3i64, 10, 7]),
                                  "WS": *rng.pick(&[1i64, 3, 10]), "d": rng.range(0, 2), "wexp": 0, "bexp": -1, "qe": 2, "tol": 2, "shape": shape, "axis": axis, "pair_only": true,
                                  "lay1": lay1, "lay2": lay2, "wlay": *rng.pick(&["plain", "rev", "step"])}));
            }
            "mompair" => {
                // bulk vs single central moments on NON-dyadic data with a large offset relative to the spread (the correction
                // terms of the shifted-moment recombination are then not exactly zero): only the bit-for-bit agreement is judged
                let n = rng.range(2, 12) as usize;
                let off = *rng.pick(&[0i64, 3_000, 300_000, 30_000_000, 900_000_000]);
                let r: Vec<i64> = (0..n).map(|_| off + rng.range(-9, 9)).collect();
                let shape = random_shape(&mut rng, n);
                let (lay1, lay2) = two_lays(&mut rng, &shape);
                let ty = *rng.pick(&["f64", "f64", "f32"]);
                cases.push(json!({"ev": "summ", "stat": "moments", "ty": ty, "r": r, "w": [], "S": *rng.pick(&[3i64, 7, 10]), "WS": 1, "p": rng.range(2, 6), "bexp": -1,
                                  "sexp": 0, "qe": 2, "tol": 2, "shape": shape, "axis": 0, "pair_only": true, "lay1": lay1, "lay2": lay2}));
            }
            "c18big" => {
                // bulk vs single central moments where the sums overflow (finite data near the top of the range, or an infinity):
                // only the bit-for-bit agreement of the two routines is judged (C18)
                let n = rng.range(1, 5) as usize;
                let r: Vec<i64> = (0..n).map(|_| rng.range(1, 3)).collect();
                let shape = random_shape(&mut rng, n);
                let (lay1, lay2) = two_lays(&mut rng, &shape);
                let ty = *rng.pick(&["f64", "f32"]);
                // sometimes an infinite or NaN observation (also as the only one)
                let specials: Vec<Value> = if rng.chance(1, 3) { vec![json!([rng.below(n as u64), rng.range(1, 3)])] } else { vec![] };
                cases.push(json!({"ev": "summ", "stat": "moments", "ty": ty, "r": r, "w": [], "S": 1, "WS": 1, "p": rng.range(0, 4), "bexp": -1, "specials": specials,
                                  "sexp": if ty == "f32" { 126 } else { 1022 }, "qe": 2, "tol": 2, "shape": shape, "axis": 0, "lay1": lay1, "lay2": lay2}));
            }
            "corr" if rng.chance(1, 8) => {
                let nv = rng.range(2, 4) as usize;
                let no = rng.range(3, 12) as usize;
                let rows: Vec<Vec<i64>> = (0..nv).map(|_| { let mut r: Vec<i64> = (0..no).map(|_| rng.range(-9, 9)).collect(); if r.iter().all(|&v| v == r[0]) { r[0] += 1; } r }).collect();
                let ty = *rng.pick(&["f64", "f64", "f32"]);
                let big = if ty == "f32" { 22 } else { 50 };
                let rowexp: Vec<i64> = (0..nv).map(|_| *rng.pick(&[0i64, 0, big, -big])).collect();
                cases.push(json!({"ev": "corrpair", "ty": ty, "rows": rows, "rowexp": rowexp, "S": *rng.pick(&[3i64, 7, 10]), "d": rng.range(0, 2)}));
            }
            "corr" if rng.chance(1, 5) => {
                // many observations (block boundaries 8, 16, 32, 64 and their neighbours): covariance against the definition,
                // correlation by its laws (the exact squared-correlation identity does not fit 31 bits here)
                let nv = rng.range(1, 2) as usize;
                let no = if rng.chance(1, 2) { *rng.pick(&[7usize, 8, 9, 15, 16, 17, 24, 31, 32, 33, 48, 63, 64]) } else { rng.range(33, 64) as usize };
                let rows: Vec<Vec<i64>> = (0..nv).map(|_| { let mut r: Vec<i64> = (0..no).map(|_| rng.range(-1, 1)).collect(); if r.iter().all(|&v| v == r[0]) { r[0] += 1; } r }).collect();
                let fancy = rng.chance(1, 2);
                let lay = random_lay(&mut rng, &[nv, no], fancy);
                let ty = *rng.pick(&["f64", "f64", "f32"]);
                let sexp = if ty == "f32" { *rng.pick(&[1i64, 10, 40, -30]) } else { *rng.pick(&[1i64, 20, 200, 400, -300]) };
                // the finest resolution at which the exact comparison fits 31 bits: 2 n^3 2^qe < 2^30
                let mut qe = 0i64; while (2 * (no as i64).pow(3)) << (qe + 1) < (1i64 << 30) { qe += 1; }
                let qe = qe.min(if ty == "f32" { 14 } else { 16 });
                // fractional ddof: usually 0, 1/2 or 1, sometimes anything below n, sometimes just below n (n - ddof = 1/2) on data whose
                // mean is not representable and much larger than the spread (offset 2^14 resp. 2^43: the error of the computed mean,
                // squared and summed, stays a quarter of a quantum; a term that grows with n^2 does not)
                let neardof = no >= 30 && !no.is_power_of_two() && rng.chance(1, 4);
                let d = if neardof { 2 * no as i64 - 1 } else if rng.chance(1, 4) { rng.range(0, 2 * no as i64 - 1) } else { rng.range(0, 2) };
                let bexp = if neardof { if ty == "f32" { 14 } else { 43 } } else if ty == "f32" { -1 } else { *rng.pick(&[-1i64, 10, 20]) };
                cases.push(json!({"ev": "corr", "ty": ty, "rows": rows, "S": 1, "d": d, "bexp": bexp, "covonly": neardof,
                                  "qe": qe, "tol": 2, "k": rng.below(nv as u64), "sexp": sexp, "lay1": lay.to_json()}));
            }
            "corr" => {
                let nv = rng.range(1, 4) as usize;
                let no = rng.range(2, 5) as usize;
                let mut rows: Vec<Vec<i64>> = (0..nv).map(|_| { let mut r: Vec<i64> = (0..no).map(|_| rng.range(-2, 2)).collect(); if r.iter().all(|&v| v == r[0]) { r[0] += 1; } r }).collect();
                // exactly collinear / anti-collinear variables (correlation +-1, where roundoff can land outside [-1, 1])
                if nv >= 2 && rng.chance(1, 5) { let c = *rng.pick(&[-1i64, 1, -1]); let d0 = rng.range(-1, 1); rows[1] = rows[0].iter().map(|&v| c * v + d0).collect(); }
                // keep the exact numerators of the squared-correlation identity within 31 bits
                let nmax = rows.iter().map(|r| { let n = no as i64; let s: i64 = r.iter().sum(); r.iter().map(|&v| (n * v - s) * (n * v - s)).sum::<i64>() }).max().unwrap();
                if nmax * nmax * 4500 >= (1i64 << 31) { continue; }
                let fancy = rng.chance(1, 2);
                let lay = random_lay(&mut rng, &[nv, no], fancy);
                let ty = *rng.pick(&["f64", "f64", "f32"]);
                let sexp = if ty == "f32" { *rng.pick(&[1i64, 10, 40, -30]) } else { *rng.pick(&[1i64, 20, 200, 400, -300]) };
                let d = if rng.chance(1, 3) { rng.range(0, 2 * no as i64 - 1) } else { rng.range(0, 2) };
                cases.push(json!({"ev": "corr", "ty": ty, "rows": rows, "S": 1, "d": d, "bexp": if ty == "f32" { *rng.pick(&[-1i64, -1, 8]) } else { *rng.pick(&[-1i64, 10, 20, 26, 30]) },
                                  "qe": 6, "tol": 2, "k": rng.below(nv as u64), "sexp": sexp, "lay1": lay.to_json()}));
            }
            "dev" if rng.chance(1, 6) => {
                // the two operands are different views of one buffer that start at the same element
                if rng.chance(1, 2) {
                    let k = rng.range(2, 3) as usize;
                    let base: Vec<i64> = (0..k * k).map(|_| rng.range(-12, 12)).collect();
                    let a = base.clone();
                    let b: Vec<i64> = (0..k * k).map(|t| base[(t % k) * k + t / k]).collect();
                    cases.push(json!({"ev": "dev", "ty": *rng.pick(&["i64", "f64"]), "alias": "t", "base": base, "a": a, "b": b, "qe": 8, "tol": 2, "maxv": 4, "shape": [k, k]}));
                } else {
                    let h = rng.range(2, 5) as usize;
                    let base: Vec<i64> = (0..2 * h).map(|_| rng.range(-12, 12)).collect();
                    let a: Vec<i64> = base[..h].to_vec();
                    let b: Vec<i64> = (0..h).map(|t| base[2 * t]).collect();
                    cases.push(json!({"ev": "dev", "ty": *rng.pick(&["i64", "f64"]), "alias": "step", "base": base, "a": a, "b": b, "qe": 8, "tol": 2, "maxv": 4, "shape": [h]}));
                }
            }
            "dev" if rng.chance(1, 6) => {
                let n = rng.range(1, 8) as usize;
                let shape = random_shape(&mut rng, n);
                let (lay1, lay2) = two_lays(&mut rng, &shape);
                // 99 = NaN; 98 = +inf in the first operand (an infinite difference: the sums are +inf wherever the pair sits)
                let inf_case = rng.chance(1, 3);
                let mut a: Vec<i64> = (0..n).map(|_| if !inf_case && rng.chance(1, 4) { 99 } else { rng.range(-3, 3) }).collect();
                let b: Vec<i64> = a.iter().map(|&v| if rng.chance(1, 2) { v } else if !inf_case && rng.chance(1, 4) { 99 } else { rng.range(-3, 3) }).collect();
                let mut b = b;
                if inf_case { let k = rng.below(n as u64) as usize; if rng.chance(1, 3) { a[k] = 97; b[k] = 97; } else { a[k] = 98; } }
                cases.push(json!({"ev": "devnan", "a": a, "b": b, "shape": shape, "lay1": lay1, "lay2": lay2}));
            }
            "dev" if rng.chance(1, 12) => {
                // narrow integer types holding more elements than the type can count (130..400 elements of i8, 200..400 of i16 / i32), with
                // so few and so small differences that every distance fits the type
                let ty = *rng.pick(&["i8", "i8", "i16", "i32"]);
                let n = if ty == "i8" { rng.range(130, 400) } else { rng.range(200, 400) } as usize;
                let shape = random_shape(&mut rng, n);
                let (lay1, lay2) = two_lays(&mut rng, &shape);
                let a: Vec<i64> = (0..n).map(|_| rng.range(-3, 3)).collect();
                let mut b = a.clone();
                for _ in 0..rng.range(0, 6) { let k = rng.below(n as u64) as usize; b[k] = a[k] + rng.range(-2, 2); }
                cases.push(json!({"ev": "devnarrow", "ty": ty, "a": a, "b": b, "shape": shape, "lay1": lay1, "lay2": lay2}));
            }
            "dev" if rng.chance(1, 8) => {
                // operands scaled by an exact power of two far towards either end of the range (floats; squares of the differences
                // under- or overflow, the differences do not) or by a power of ten (integers; squares of the differences do not fit)
                let n = rng.range(1, 8) as usize;
                let shape = random_shape(&mut rng, n);
                let (lay1, lay2) = two_lays(&mut rng, &shape);
                let a: Vec<i64> = (0..n).map(|_| rng.range(-12, 12)).collect();
                let b: Vec<i64> = a.iter().map(|&v| if rng.chance(1, 3) { v } else { rng.range(-12, 12) }).collect();
                let ty = *rng.pick(&["f64", "f64", "f32", "i32", "i64"]);
                let dexp: i64 = match ty { "f64" => *rng.pick(&[-1070i64, -1060, -600, 600, 1000]), "f32" => *rng.pick(&[-140i64, -130, -80, 80, 120]), "i32" => 4, _ => 10 };
                cases.push(json!({"ev": "devscale", "ty": ty, "a": a, "b": b, "dexp": dexp, "shape": shape, "lay1": lay1, "lay2": lay2}));
            }
            "dev" => {
                let n = if rng.chance(1, 5) { rng.range(10, 40) } else { rng.range(1, if big { 16 } else { 9 }) } as usize;
                let shape = random_shape(&mut rng, n);
                let (lay1, lay2) = two_lays(&mut rng, &shape);
                let a: Vec<i64> = (0..n).map(|_| rng.range(-12, 12)).collect();
                let b: Vec<i64> = a.iter().map(|&v| if rng.chance(1, 3) { v } else { rng.range(-12, 12) }).collect();
                // psnr exact points: sometimes force maxv^2 * n = 10^k * sq
                let ty = *rng.pick(&["i32", "i64", "bigint", "f32", "f64"]);
                // integers far beyond 2^53 with small differences: the measures are functions of the exact integer distances
                let ibase: i64 = match ty { "i64" => *rng.pick(&[-1i64, -1, 55, 61]), "bigint" => *rng.pick(&[-1i64, 70, 200]), _ => -1 };
                cases.push(json!({"ev": "dev", "ty": ty, "a": a, "b": b, "qe": 8, "tol": 2, "maxv": *rng.pick(&[1i64, 4, 10, 40, 100]), "ibase": ibase,
                                  "shape": shape, "lay1": lay1, "lay2": lay2}));
            }
            _ => {
                let n = rng.range(1, 6) as usize;
                let m = rng.range(2, 5);
                let top = 1i64 << m;
                let mut a: Vec<i64> = (0..n).map(|_| if rng.chance(1, 4) { 0 } else { rng.range(1, top.min(32)) }).collect();
                let mut b: Vec<i64> = (0..n).map(|_| if rng.chance(1, 6) { 0 } else { rng.range(1, top.min(32)) }).collect();
                match rng.below(6) { 0 => { let k = rng.below(n as u64) as usize; a[k] = -1; } 1 => { let k = rng.below(n as u64) as usize; b[k] = -1; } 2 => { let k = rng.below(n as u64) as usize; b[k] = -2; }
                                     3 => { let k = rng.below(n as u64) as usize; a[k] = 0; b[k] = -1; } _ => {} }
                let shape = random_shape(&mut rng, n);
                let (lay1, lay2) = two_lays(&mut rng, &shape);
                let ty = *rng.pick(&["f64", "f64", "f32"]);
                // q far below p (ratios of 2^-30 .. 2^-70), on tiny distributions so that the exact terms fit 31 bits
                let mut bx: Vec<i64> = vec![0; n];
                if n <= 3 && rng.chance(1, 4) {
                    for v in a.iter_mut() { if *v > 4 { *v = 1 + *v % 4; } }
                    for v in b.iter_mut() { if *v > 4 { *v = 1 + *v % 4; } }
                    let k = rng.below(n as u64) as usize;
                    bx[k] = if ty == "f32" { 30 } else { *rng.pick(&[40i64, 60, 70]) };
                }
                // elements of p far into the subnormal range
                let mut ax: Vec<i64> = vec![0; n];
                if rng.chance(1, 5) { let k = rng.below(n as u64) as usize; if a[k] > 0 && a[k] <= 16 { ax[k] = if ty == "f32" { 140 } else { 1040 }; } }
                // both operands towards the top of the range (only where all ratios q/p are moderate)
                let plain = bx.iter().all(|&e| e == 0) && ax.iter().all(|&e| e == 0);
                let ssum: f64 = a.iter().filter(|&&v| v > 0).map(|&v| v as f64).sum::<f64>() / (1i64 << m) as f64;
                let kexp: i64 = if plain && rng.chance(1, 3) { (if ty == "f32" { 126 } else { 1021 }) - (ssum.max(1.0).log2().ceil() as i64) } else { 0 };
                cases.push(json!({"ev": "ent", "ty": ty, "a": a, "b": b, "bx": bx, "ax": ax, "kexp": kexp, "m": m, "qe": 12, "shape": shape, "lay1": lay1, "lay2": lay2}));
            }
        }
    }
    cases
}
