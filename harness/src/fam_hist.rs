//! Families `hist` (Histogram histories, matrix form), `lookup` (Edges / Bins / Grid accessors,
//! out-of-range bin indexes) and `strategy` (bin-building strategies, GridBuilder) - src/histogram.
use crate::util::*;
use crate::Params;
use ndarray::prelude::*;
use ndarray_stats::histogram::strategies::{Auto, BinsBuildingStrategy, FreedmanDiaconis, Rice, Sqrt, Sturges};
use ndarray_stats::histogram::{Bins, Edges, Grid, GridBuilder, Histogram};
use ndarray_stats::HistogramExt;
use noisy_float::types::{n64, N64};
use serde_json::{json, Value};

pub trait HElem: Ord + Clone + 'static {
    const NAME: &'static str;
    fn mk(v: i64) -> Self;
    fn back(&self) -> i64;
}
impl HElem for i32 { const NAME: &'static str = "i32"; fn mk(v: i64) -> Self { v as i32 } fn back(&self) -> i64 { *self as i64 } }
impl HElem for u8 { const NAME: &'static str = "u8"; fn mk(v: i64) -> Self { (v + 10) as u8 } fn back(&self) -> i64 { *self as i64 - 10 } }
impl HElem for i64 { const NAME: &'static str = "i64"; fn mk(v: i64) -> Self { v * 1_000_000_007 } fn back(&self) -> i64 { *self / 1_000_000_007 } }
impl HElem for N64 { const NAME: &'static str = "n64"; fn mk(v: i64) -> Self { n64(v as f64 / 4.0 + 0.125) } fn back(&self) -> i64 { ((self.raw() - 0.125) * 4.0).round() as i64 } }

macro_rules! with_helem {
    ($name:expr, $f:ident, $($arg:expr),*) => {
        match $name { "i32" => $f::<i32>($($arg),*), "u8" => $f::<u8>($($arg),*), "i64" => $f::<i64>($($arg),*), "n64" => $f::<N64>($($arg),*), t => panic!("hist type {t}") }
    };
}

fn axes_of(case: &Value) -> Vec<Vec<i64>> {
    case["axes"].as_array().map(|a| a.iter().map(jints).collect()).unwrap_or_default()
}
fn pts_of(v: &Value) -> Vec<Vec<i64>> {
    v.as_array().map(|a| a.iter().map(jints).collect()).unwrap_or_default()
}
fn make_grid<T: HElem>(axes: &[Vec<i64>], via_array: bool) -> Grid<T> {
    let bins: Vec<Bins<T>> = axes.iter().map(|e| {
        let v: Vec<T> = e.iter().map(|&x| T::mk(x)).collect();
        Bins::new(if via_array { Edges::from(Array1::from(v)) } else { Edges::from(v) })
    }).collect();
    Grid::from(bins)
}
fn flat_counts<T: Ord>(h: &Histogram<T>) -> Vec<usize> { h.counts().iter().cloned().collect() }

/// A history of single inserts: one observation after `new` and after every add_observation.
fn hist_ev<T: HElem>(case: &Value, out: &mut Vec<Value>) {
    let axes = axes_of(case);
    let pts = pts_of(&case["pts"]);
    let grid = make_grid::<T>(&axes, false);
    let edges: Vec<Vec<i64>> = grid.projections().iter().map(|b| (0..=b.len()).filter(|_| b.len() > 0).map(|i| if i < b.len() { b.index(i).start.back() } else { b.index(i - 1).end.back() }).collect()).collect();
    let mut h = Histogram::new(grid);
    out.push(json!({"ev": "hist_new", "ty": T::NAME, "axes": axes, "built": edges, "shape": h.counts().shape(), "counts": flat_counts(&h), "ndim": h.ndim()}));
    for p in &pts {
        let obs: Array1<T> = p.iter().map(|&x| T::mk(x)).collect();
        let r = guarded(|| h.add_observation(&obs));
        out.push(json!({"ev": "hist_add", "pt": p, "res": match r { Ok(Ok(())) => "ok", Ok(Err(_)) => "BinNotFound", Err(()) => "panic" },
                        "shape": h.counts().shape(), "counts": flat_counts(&h)}));
    }
}

/// The matrix form: rows of a row- or column-major (or sliced) matrix.
fn hist_matrix_ev<T: HElem>(case: &Value, out: &mut Vec<Value>) {
    let axes = axes_of(case);
    let pts = pts_of(&case["pts"]);
    let d = axes.len();
    let lay = if case.get("lay").is_some() { Lay::from_json(&case["lay"]) } else { Lay::plain(&[pts.len(), d], jstr(case, "order", "C") == "F") };
    let flat: Vec<T> = pts.iter().flat_map(|p| p.iter().map(|&x| T::mk(x))).collect();
    let parent = lay.build(&flat, |k| T::mk(k as i64 % 5));
    let v = lay.view(&parent).into_dimensionality::<Ix2>().unwrap();
    let r = guarded(|| { let h = v.histogram(make_grid::<T>(&axes, true)); (h.counts().shape().to_vec(), flat_counts(&h)) });
    let (outc, shape, counts) = match r { Ok((s, c)) => ("ok", s, c), Err(()) => ("panic", vec![], vec![]) };
    out.push(json!({"ev": "hist_matrix", "ty": T::NAME, "axes": axes, "pts": pts, "lay": lay.to_json(), "out": outc, "shape": shape, "counts": counts}));
}

fn rng_json<T: HElem>(r: &std::ops::Range<T>) -> Value { json!([r.start.back(), r.end.back()]) }

/// Edges / Bins accessors on one edge collection with a list of probes.
fn edges_ev<T: HElem>(case: &Value, out: &mut Vec<Value>) {
    let input = jints(&case["input"]);
    let probes = jints(&case["probes"]);
    let via_array = jstr(case, "src", "vec") == "array";
    let v: Vec<T> = input.iter().map(|&x| T::mk(x)).collect();
    let edges = if via_array {
        // an owned array that may be a strict part of its allocation
        let step = case.get("step").and_then(|x| x.as_i64()).unwrap_or(1) as isize;
        if step == 1 { Edges::from(Array1::from(v)) } else {
            let st = Strided::new(&v, step, 1, |k| T::mk(100 + k as i64));
            let a = st.parent.slice_move(ndarray::s![1..(1 + if v.is_empty() { 0 } else { (v.len() - 1) * step.unsigned_abs() + 1 }) as isize; step]);
            Edges::from(a)
        }
    } else { Edges::from(v) };
    let built: Vec<i64> = edges.iter().map(|x| x.back()).collect();
    let view: Vec<i64> = edges.as_array_view().iter().map(|x| x.back()).collect();
    let by_index: Vec<i64> = (0..edges.len()).map(|i| edges[i].back()).collect();
    let elen = edges.len();
    let eempty = edges.is_empty();
    let bins = Bins::new(edges.clone());
    let pr: Vec<Value> = probes.iter().map(|&p| {
        let x = T::mk(p);
        let io = guarded(|| edges.indices_of(&x));
        let bo = guarded(|| bins.index_of(&x));
        let ro = guarded(|| bins.range_of(&x));
        json!({"v": p,
               "indices": match io { Ok(Some((a, b))) => json!([a, b]), Ok(None) => json!([]), Err(()) => json!([-9]) },
               "index_of": match bo { Ok(Some(i)) => i as i64, Ok(None) => -1, Err(()) => -9 },
               "range": match ro { Ok(Some(r)) => rng_json(&r), Ok(None) => json!([]), Err(()) => json!([-9]) }})
    }).collect();
    let ranges: Vec<Value> = (0..bins.len()).map(|i| rng_json(&bins.index(i))).collect();
    out.push(json!({"ev": "edges", "ty": T::NAME, "src": if via_array {"array"} else {"vec"}, "input": input, "built": built, "view": view, "by_index": by_index,
        "len": elen, "is_empty": eempty, "bins_len": bins.len(), "bins_empty": bins.is_empty(), "probes": pr, "ranges": ranges}));
}

/// Grid accessors: shape, index_of for points, index for every index tuple.
fn grid_ev<T: HElem>(case: &Value, out: &mut Vec<Value>) {
    let axes = axes_of(case);
    let pts = pts_of(&case["pts"]);
    let grid = make_grid::<T>(&axes, false);
    let shape = grid.shape();
    let pr: Vec<Value> = pts.iter().map(|p| {
        let obs: Array1<T> = p.iter().map(|&x| T::mk(x)).collect();
        let r = guarded(|| grid.index_of(&obs));
        json!({"pt": p, "idx": match r { Ok(Some(v)) => json!(v), Ok(None) => json!([-1]), Err(()) => json!([-9]) }})
    }).collect();
    let total: usize = shape.iter().product();
    let mut by_index: Vec<Value> = Vec::new();
    for t in 0..total.min(64) {
        let mut idx = vec![0usize; shape.len()];
        let mut tt = t;
        for k in (0..shape.len()).rev() { idx[k] = tt % shape[k]; tt /= shape[k]; }
        let r = guarded(|| grid.index(&idx));
        by_index.push(json!({"idx": idx, "ranges": match r { Ok(v) => v.iter().map(rng_json).collect::<Vec<_>>(), Err(()) => vec![json!([-9])] }}));
    }
    out.push(json!({"ev": "grid", "ty": T::NAME, "axes": axes, "ndim": grid.ndim(), "shape": shape, "probes": pr, "by_index": by_index}));
}

/// C16: Bins::index / Grid::index with in- and out-of-range bin indexes.
fn index_ev<T: HElem>(case: &Value, out: &mut Vec<Value>) {
    let axes = axes_of(case);
    let idx: Vec<usize> = jints(&case["idx"]).into_iter().map(to_usize).collect();
    let grid = make_grid::<T>(&axes, false);
    let shape = grid.shape();
    let gr = guarded(|| grid.index(&idx).len());
    let br = guarded(|| grid.projections()[0].index(idx[0]).start.back());
    out.push(json!({"ev": "index", "ty": T::NAME, "axes": axes, "shape": shape, "idx": idx.iter().map(|&x| from_usize(x)).collect::<Vec<_>>(),
        "grid_out": if gr.is_ok() {"ok"} else {"panic"}, "bins_out": if br.is_ok() {"ok"} else {"panic"}}));
}

// --------------------------------------------------------------------------- strategies

trait SElem: Ord + Clone + num_traits::FromPrimitive + num_traits::NumOps + num_traits::Zero + 'static {
    const NAME: &'static str;
    const IS_FLOAT: bool;
    fn mk(v: i64, mode: &str) -> Self;
    fn raw_i(&self) -> Option<i64>;
}
macro_rules! selem_int { ($t:ty, $name:expr) => { impl SElem for $t { const NAME: &'static str = $name; const IS_FLOAT: bool = false;
    fn mk(v: i64, _m: &str) -> Self { v as $t } fn raw_i(&self) -> Option<i64> { let x = *self as i128; if x.abs() < (1 << 29) { Some(x as i64) } else { None } } } }; }
selem_int!(i32, "i32");
selem_int!(i64, "i64");
selem_int!(u32, "u32");
selem_int!(u8, "u8");
selem_int!(u16, "u16");
selem_int!(i16, "i16");
impl SElem for N64 {
    const NAME: &'static str = "n64";
    const IS_FLOAT: bool = true;
    fn mk(v: i64, mode: &str) -> Self {
        n64(match mode { "tenth" => 0.3 + 0.1 * v as f64, "offset" => 1.0e9 + 0.001 * v as f64, "big" => 1.0e16 + 2.0 * v as f64, "third" => v as f64 / 3.0, _ => v as f64 / 4.0 })
    }
    fn raw_i(&self) -> Option<i64> { None }
}

fn strategy_one<T: SElem + num_traits::ToPrimitive, B: BinsBuildingStrategy<Elem = T>>(data: &Array1<T>) -> Value {
    let mut o = serde_json::Map::new();
    let b = match guarded(|| B::from_array(data)) {
        Err(()) => { o.insert("out".into(), json!("panic")); return Value::Object(o); }
        Ok(Err(e)) => { o.insert("out".into(), json!(if e.is_empty_input() { "EmptyInput" } else if e.is_strategy() { "Strategy" } else { "Other" })); return Value::Object(o); }
        Ok(Ok(b)) => b,
    };
    let r = guarded(|| (b.n_bins(), b.build()));
    let (n_bins, bins) = match r { Ok(x) => x, Err(()) => { o.insert("out".into(), json!("panic_build")); return Value::Object(o); } };
    o.insert("out".into(), json!("ok"));
    o.insert("n_bins".into(), json!(n_bins.min(1 << 29)));
    o.insert("bins_len".into(), json!(bins.len()));
    // doubled ranks of the edges relative to the data values
    let vals: Vec<T> = data.iter().cloned().collect();
    let rm = rank_map(&vals);
    let edges: Vec<T> = (0..bins.len()).map(|i| bins.index(i).start).chain((bins.len() > 0).then(|| bins.index(bins.len() - 1).end)).collect();
    o.insert("e2".into(), json!(edges.iter().map(|e| rank2_of(&rm, e)).collect::<Vec<_>>()));
    // the edges as values: strictly increasing (no bin is empty by construction)
    o.insert("strict".into(), json!(edges.windows(2).all(|w| w[0] < w[1])));
    o.insert("nvals".into(), json!(rm.len()));
    // per datum: number of bins containing it, by the real lookup
    let inbin: Vec<i64> = vals.iter().map(|x| bins.index_of(x).is_some() as i64).collect();
    o.insert("covered".into(), json!(inbin.iter().sum::<i64>()));
    if !T::IS_FLOAT {
        if let Some(raw) = edges.iter().map(|e| e.raw_i()).collect::<Option<Vec<i64>>>() { o.insert("raw".into(), json!(raw)); }
        if let (Some(mn), Some(mx)) = (vals.iter().min().and_then(|v| v.raw_i()), vals.iter().max().and_then(|v| v.raw_i())) {
            o.insert("mn".into(), json!(mn)); o.insert("mx".into(), json!(mx));
        }
    } else {
        // equal width at the quantum: max |d_i - d_0| / d_0 in units of 2^-20
        let f: Vec<f64> = edges.iter().map(|e| num_traits::ToPrimitive::to_f64(e).unwrap()).collect();
        if f.len() >= 3 {
            let d0 = f[1] - f[0];
            let dev = f.windows(2).map(|w| ((w[1] - w[0]) - d0).abs() / d0).fold(0.0, f64::max);
            o.insert("wdev".into(), json!(((dev * 1048576.0).round() as i64).min(1 << 29)));
        }
    }
    // histogram of the data over the built grid counts all observations
    let h = guarded(|| {
        let m = data.clone().insert_axis(Axis(1));
        let grid = GridBuilder::<B>::from_array(&m).map(|g| g.build());
        grid.map(|g| { let hist = m.histogram(g); (hist.counts().sum(), hist.counts().iter().map(|&c| c as i64).collect::<Vec<i64>>()) })
    });
    o.insert("hist_total".into(), json!(match &h { Ok(Ok((t, _))) => *t as i64, _ => -1 }));
    // ... and puts each of them into the bin that contains it: the counts per bin next to the data in doubled-rank space
    if vals.len() <= 400 {
        if let Ok(Ok((_, counts))) = &h {
            o.insert("hcounts".into(), json!(counts));
            o.insert("dr".into(), json!(vals.iter().map(|x| rank2_of(&rm, x)).collect::<Vec<_>>()));
        }
    }
    Value::Object(o)
}

fn strategy_ev<T: SElem + num_traits::ToPrimitive>(case: &Value, out: &mut Vec<Value>) {
    let mode = jstr(case, "mode", "quarter");
    let raw = jints(&case["data"]);
    let data: Array1<T> = raw.iter().map(|&v| T::mk(v, mode)).collect();
    let strat = jstr(case, "strat", "sqrt");
    let res = match strat {
        "sqrt" => strategy_one::<T, Sqrt<T>>(&data),
        "rice" => strategy_one::<T, Rice<T>>(&data),
        "sturges" => strategy_one::<T, Sturges<T>>(&data),
        "fd" => strategy_one::<T, FreedmanDiaconis<T>>(&data),
        "auto" => strategy_one::<T, Auto<T>>(&data),
        _ => panic!("strategy {strat}"),
    };
    let mut distinct = raw.clone(); distinct.sort(); distinct.dedup();
    let mut o = res.as_object().unwrap().clone();
    o.insert("ev".into(), json!("strategy"));
    o.insert("ty".into(), json!(T::NAME));
    o.insert("strat".into(), json!(strat));
    o.insert("mode".into(), json!(mode));
    o.insert("n".into(), json!(raw.len()));
    o.insert("ndistinct".into(), json!(distinct.len()));
    o.insert("isfloat".into(), json!(T::IS_FLOAT));
    if raw.len() <= 40 { o.insert("data".into(), json!(raw)); }
    out.push(Value::Object(o));
}

/// GridBuilder over a matrix of 1..3 columns followed by a real histogram of the rows.
fn gridbuilder_ev<T: SElem + num_traits::ToPrimitive, B: BinsBuildingStrategy<Elem = T>>(case: &Value, out: &mut Vec<Value>) {
    let mode = jstr(case, "mode", "quarter");
    let cols: Vec<Vec<i64>> = case["cols"].as_array().unwrap().iter().map(jints).collect();
    let (n, d) = (cols[0].len(), cols.len());
    let flat: Vec<T> = (0..n).flat_map(|i| (0..d).map(move |j| (i, j))).map(|(i, j)| T::mk(cols[j][i], mode)).collect();
    let lay = if case.get("lay").is_some() { Lay::from_json(&case["lay"]) } else { Lay::plain(&[n, d], false) };
    let parent = lay.build(&flat, |_| T::mk(1, mode));
    let m = lay.view(&parent).into_dimensionality::<Ix2>().unwrap();
    let mut o = case.as_object().unwrap().clone();
    o.insert("ev".into(), json!("gridbuilder"));
    o.insert("n".into(), json!(n));
    let r = guarded(|| GridBuilder::<B>::from_array(&m).map(|g| g.build()));
    match r {
        Err(()) => { o.insert("out".into(), json!("panic")); }
        Ok(Err(e)) => { o.insert("out".into(), json!(if e.is_empty_input() { "EmptyInput" } else { "Strategy" })); }
        Ok(Ok(grid)) => {
            o.insert("out".into(), json!("ok"));
            o.insert("ndim".into(), json!(grid.ndim()));
            let mut pcols: Vec<Value> = Vec::new();
            for (j, bins) in grid.projections().iter().enumerate() {
                let vals: Vec<T> = (0..n).map(|i| T::mk(cols[j][i], mode)).collect();
                let rm = rank_map(&vals);
                let edges: Vec<T> = (0..bins.len()).map(|i| bins.index(i).start).chain((bins.len() > 0).then(|| bins.index(bins.len() - 1).end)).collect();
                pcols.push(json!({"e2": edges.iter().map(|e| rank2_of(&rm, e)).collect::<Vec<_>>(), "nvals": rm.len(),
                                  "covered": vals.iter().filter(|x| bins.index_of(x).is_some()).count()}));
            }
            o.insert("pcols".into(), json!(pcols));
            let total = guarded(|| m.histogram(grid).counts().sum());
            o.insert("hist_total".into(), json!(total.map(|t| t as i64).unwrap_or(-1)));
        }
    }
    o.insert("ndistinct".into(), json!(cols.iter().map(|c| { let mut v = c.clone(); v.sort(); v.dedup(); v.len() }).collect::<Vec<_>>()));
    out.push(Value::Object(o));
}

pub fn run(case: &Value, _params: &Params, out: &mut Vec<Value>) {
    let ev = jstr(case, "ev", "");
    let ty = jstr(case, "ty", "i32");
    if ev == "gridbuilder" {
        macro_rules! gb { ($t:ty) => { match jstr(case, "strat", "sqrt") {
            "sqrt" => gridbuilder_ev::<$t, Sqrt<$t>>(case, out), "rice" => gridbuilder_ev::<$t, Rice<$t>>(case, out),
            "sturges" => gridbuilder_ev::<$t, Sturges<$t>>(case, out), "fd" => gridbuilder_ev::<$t, FreedmanDiaconis<$t>>(case, out),
            _ => gridbuilder_ev::<$t, Auto<$t>>(case, out) } }; }
        match ty { "i64" => gb!(i64), "n64" => gb!(N64), _ => gb!(i32) }
        return;
    }
    match ev {
        "hist" => {
            if case.get("ty").is_some() { with_helem!(ty, hist_ev, case, out) } else {
                hist_ev::<i32>(case, out); hist_ev::<N64>(case, out);
                let mut c = case.clone(); c.as_object_mut().unwrap().insert("order".into(), json!("C")); hist_matrix_ev::<i32>(&c, out);
                c.as_object_mut().unwrap().insert("order".into(), json!("F")); hist_matrix_ev::<N64>(&c, out);
            }
        }
        "hist_matrix" => with_helem!(ty, hist_matrix_ev, case, out),
        "edges" => { if case.get("ty").is_some() { with_helem!(ty, edges_ev, case, out) } else {
            edges_ev::<i32>(case, out); edges_ev::<u8>(case, out); edges_ev::<N64>(case, out);
            let mut c = case.clone(); c.as_object_mut().unwrap().insert("src".into(), json!("array")); edges_ev::<i32>(&c, out); } }
        "grid" => with_helem!(ty, grid_ev, case, out),
        "index" => with_helem!(ty, index_ev, case, out),
        "strategy" => match ty { "i32" => strategy_ev::<i32>(case, out), "i64" => strategy_ev::<i64>(case, out), "u32" => strategy_ev::<u32>(case, out),
                                  "u8" => strategy_ev::<u8>(case, out), "u16" => strategy_ev::<u16>(case, out), "i16" => strategy_ev::<i16>(case, out),
                                  "n64" => strategy_ev::<N64>(case, out), t => panic!("strategy type {t}") },
        _ => panic!("unknown hist event {ev}"),
    }
}

fn random_edges(rng: &mut Rng, maxn: i64) -> Vec<i64> {
    let n = rng.range(0, maxn);
    (0..n).map(|_| rng.range(-6, 12)).collect()
}

pub fn gen(seed: u64, count: usize, tier: &str, params: &Params) -> Vec<Value> {
    let mut rng = Rng(seed ^ 0x4853);
    let kinds: Vec<&str> = params.get("kinds").map(|s| s.split('/').collect()).unwrap_or_else(|| vec!["hist", "hist_matrix", "edges", "grid"]);
    let mut cases = Vec::new();
    for _ in 0..count {
        let ty = *rng.pick(&["i32", "u8", "i64", "n64"]);
        match *rng.pick(&kinds) {
            "hist" | "hist_matrix" => {
                let d = rng.range(1, 3) as usize;
                let mut axes: Vec<Vec<i64>> = (0..d).map(|_| random_edges(&mut rng, 6)).collect();
                if rng.chance(1, 8) { let k = rng.below(d as u64) as usize; let n = rng.range(10, 40); axes[k] = (0..n).map(|_| rng.range(-6, 12)).collect(); }
                // sometimes more rows than any plausible block size of a block-wise implementation
                let np = if rng.chance(1, 5) { rng.range(60, 200) } else { rng.range(0, if tier == "thorough" { 200 } else { 40 }) };
                let pts: Vec<Vec<i64>> = (0..np).map(|_| (0..d).map(|a| { let e = &axes[a];
                    if !e.is_empty() && rng.chance(1, 2) { *rng.pick(e) } else { rng.range(-8, 14) } }).collect()).collect();
                if rng.chance(1, 2) {
                    cases.push(json!({"ev": "hist", "ty": ty, "axes": axes, "pts": pts}));
                } else {
                    let fancy = rng.chance(2, 3);
                    let lay = random_lay(&mut rng, &[pts.len(), d], fancy);
                    cases.push(json!({"ev": "hist_matrix", "ty": ty, "axes": axes, "pts": pts, "lay": lay.to_json()}));
                }
            }
            "edges" if rng.chance(1, 6) => {
                // long edge sequences (10..70 edges): where search schemes (bisection, galloping) change their step pattern
                let n = rng.range(10, 70);
                let input: Vec<i64> = (0..n).map(|_| rng.range(-8, 60)).collect();
                let probes: Vec<i64> = (-9..=61).collect();
                let src = *rng.pick(&["vec", "array"]);
                cases.push(json!({"ev": "edges", "ty": ty, "input": input, "probes": probes, "src": src, "step": *rng.pick(&[1i64, 1, 2, -1, 3])}));
            }
            "edges" => {
                let input = random_edges(&mut rng, 9);
                let probes: Vec<i64> = (-8..=14).collect();
                let src = *rng.pick(&["vec", "array"]);
                cases.push(json!({"ev": "edges", "ty": ty, "input": input, "probes": probes, "src": src, "step": *rng.pick(&[1i64, 1, 2, -1, 3])}));
            }
            "grid" => {
                let d = rng.range(0, 3) as usize;
                let mut axes: Vec<Vec<i64>> = (0..d).map(|_| random_edges(&mut rng, 5)).collect();
                // some adjacent axes carry identical bins, others do not; points often repeat a coordinate on neighbouring axes
                if d >= 2 && rng.chance(1, 3) { let k = rng.below(d as u64 - 1) as usize; axes[k + 1] = axes[k].clone(); }
                let pts: Vec<Vec<i64>> = (0..12).map(|_| { let mut p: Vec<i64> = (0..d).map(|_| rng.range(-8, 14)).collect();
                    if d >= 2 && rng.chance(1, 2) { let k = rng.below(d as u64 - 1) as usize; p[k + 1] = p[k]; } p }).collect();
                cases.push(json!({"ev": "grid", "ty": ty, "axes": axes, "pts": pts}));
            }
            "index" => {
                let d = rng.range(1, 3) as usize;
                let axes: Vec<Vec<i64>> = (0..d).map(|_| random_edges(&mut rng, 5)).collect();
                let idx: Vec<i64> = (0..d).map(|a| { let mut e = axes[a].clone(); e.sort(); e.dedup(); let len = (e.len() as i64 - 1).max(0);
                    match rng.below(8) { 0 => len, 1 => len + 1, 2 => BIG, 3 => BIG - 1 - rng.range(0, len.max(1)), _ => if len > 0 { rng.range(0, len - 1) } else { 0 } } }).collect();
                cases.push(json!({"ev": "index", "ty": ty, "axes": axes, "idx": idx}));
            }
            "gridbuilder" => {
                let sty = *rng.pick(&["i32", "i64", "n64"]);
                let d = rng.range(1, 3) as usize;
                let n = match rng.below(6) { 0 => 0, 1 => 1, _ => rng.range(2, 120) } as usize;
                let (mode, lo, hi): (&str, i64, i64) = if sty == "n64" { *rng.pick(&[("tenth", 0i64, 400i64), ("quarter", -200, 200), ("third", -50, 50)]) } else { ("int", -5000, 5000) };
                let cols: Vec<Vec<i64>> = (0..d).map(|_| { let st = rng.below(4); let c0 = rng.range(lo, hi);
                    (0..n).map(|k| match st { 0 => lo + (k as i64 * (hi - lo)) / n.max(1) as i64, 1 => if rng.chance(1, 8) { rng.range(lo, hi) } else { c0 }, _ => rng.range(lo, hi) }).collect() }).collect();
                let fancy = rng.chance(1, 2);
                let lay = random_lay(&mut rng, &[n, d], fancy);
                cases.push(json!({"ev": "gridbuilder", "ty": sty, "strat": *rng.pick(&["sqrt", "rice", "sturges", "fd", "auto"]), "mode": mode, "cols": cols, "lay": lay.to_json()}));
            }
            _ => {
                // strategies on narrow integer types whose data reach into the upper half of the range, inside the property's
                // domain: the last edge (at most max + width) is representable.  Bin counts by the documented formulas.
                if rng.chance(1, 6) {
                    let (sty, tmax): (&str, i64) = *rng.pick(&[("u8", 255i64), ("u16", 65535), ("i16", 32767)]);
                    let strat = *rng.pick(&["sqrt", "rice", "sturges"]);
                    let n = rng.range(4, 60);
                    let k = match strat { "sqrt" => (n as f64).sqrt().round(), "rice" => (2.0 * (n as f64).cbrt()).round(), _ => ((n as f64).log2() + 1.0).round() } as i64;
                    let a = rng.range(tmax / 8, tmax / 2);
                    let b = rng.range(a + tmax / 4, tmax - tmax / 16);
                    let w = (b - a) / k.max(1);
                    if w == 0 || b + w + 1 > tmax { continue; }
                    let mut data: Vec<i64> = (0..n).map(|_| rng.range(a, b)).collect();
                    data[0] = a; data[1] = b;
                    cases.push(json!({"ev": "strategy", "ty": sty, "strat": strat, "mode": "int", "data": data}));
                    continue;
                }
                let sty = *rng.pick(&["i32", "i64", "u32", "n64", "n64"]);
                let strat = *rng.pick(&["sqrt", "rice", "sturges", "fd", "auto"]);
                let big = tier == "thorough" && rng.chance(1, 10);
                let n = match rng.below(8) { 0 => 0, 1 => 1, 2 => rng.range(2, 6), _ => if big { rng.range(1000, 10000) } else { rng.range(2, 300) } };
                let (mode, lo, hi): (&str, i64, i64) = if sty == "n64" {
                    match rng.below(6) { 0 => ("tenth", 0, 400), 1 => ("offset", 0, 2000), 2 => ("big", 0, 3), 3 => ("third", -50, 50), _ => ("quarter", -200, 200) }
                } else if sty == "u32" { ("int", 0, 100000) } else { ("int", -50000, 50000) };
                let style = rng.below(8);
                let c0 = rng.range(lo, hi);
                let data: Vec<i64> = (0..n).map(|k| match style {
                    0 => c0,                                                       // constant
                    1 => if rng.chance(1, 10) { rng.range(lo, hi) } else { c0 },   // heavy ties: zero inter-quartile range
                    2 => lo + (k * (hi - lo)) / n.max(1),                          // regular steps
                    3 => rng.range(lo, lo + (hi - lo) / 50 + 1),                   // narrow range
                    4 => c0 + rng.range(0, 5),                                     // a handful of tied values: integer widths truncate to zero
                    5 => c0 + rng.range(0, (n / 2).max(2)),                         // range below n: the truncated integer width loses whole bins
                    6 => if rng.chance(1, 12) { rng.range(lo, hi) } else { lo + rng.range(0, (hi - lo) / 40 + 4) },   // a concentrated bulk with far outliers: the quartile-based width is far narrower than the range-based ones
                    _ => rng.range(lo, hi) }).collect();
                cases.push(json!({"ev": "strategy", "ty": sty, "strat": strat, "mode": mode, "data": data}));
            }
        }
    }
    cases
}
