//! Family `quant`: quantile_axis_mut / quantiles_axis_mut / quantile_mut / quantiles_mut
//! (src/quantile/mod.rs, interpolate.rs) on n-D views, all five strategies, several
//! element types; plus groups of calls on one lane for the order laws (C19).
use crate::util::*;
use crate::Params;
use ndarray::prelude::*;
use ndarray_stats::errors::QuantileError;
use ndarray_stats::interpolate::{Higher, Linear, Lower, Midpoint, Nearest};
use ndarray_stats::verif_hooks::{self, Fallback};
use ndarray_stats::{Quantile1dExt, QuantileExt};
use noisy_float::types::{n64, N64};
use serde_json::{json, Value};

pub const STRATS: &[&str] = &["lower", "higher", "nearest", "midpoint", "linear"];

// --------------------------------------------------------------------------- q projection

fn ulp_step(x: f64, u: i64) -> f64 {
    let mut y = x;
    for _ in 0..u.unsigned_abs() {
        y = if u > 0 { next_up(y) } else { next_down(y) };
    }
    y
}
fn next_up(x: f64) -> f64 {
    if x == 0.0 { return f64::from_bits(1); }
    let b = x.to_bits();
    f64::from_bits(if x > 0.0 { b + 1 } else { b - 1 })
}
fn next_down(x: f64) -> f64 {
    if x == 0.0 { return -f64::from_bits(1); }
    let b = x.to_bits();
    f64::from_bits(if x > 0.0 { b - 1 } else { b + 1 })
}

/// q = a/b in f64, moved by u "macro ulps": |u| < 1000 are single ulps, larger values are
/// multiples of 2^20 ulps (u/1000 of them), then clamped into [0, 1].
pub fn make_q(spec: &Value) -> f64 {
    let a = jint(spec, "a") as f64;
    let b = jint(spec, "b") as f64;
    let u = spec.get("u").and_then(|x| x.as_i64()).unwrap_or(0);
    let base = a / b;
    let q = if u.abs() < 1000 { ulp_step(base, u) } else {
        let steps = (u / 1000) * (1 << 20);
        let bits = base.to_bits() as i64 + steps;
        if base == 0.0 || bits <= 0 { base } else { f64::from_bits(bits as u64) }
    };
    if spec.get("bad").and_then(|x| x.as_bool()).unwrap_or(false) { q } else { q.clamp(0.0, 1.0) }
}

/// Exact information about the real number P = q*(n-1) for an f64 q in [0,1]:
/// k = floor(P), int = P integral, hc = sign(frac(P) - 1/2), and ambiguity flags saying that an
/// integer (up / dn) or a half-integer (half) lies within the rounding error 2^-53*P of P while
/// the f64 product q*(n-1) is inexact, so an implementation computing the position in f64 may
/// legitimately see that neighbouring value.
pub fn qinfo(q: f64, n: usize) -> Value {
    let bits = q.to_bits();
    let exp = ((bits >> 52) & 0x7ff) as i64;
    let frac = bits & ((1u64 << 52) - 1);
    let (m, e) = if exp == 0 { (frac, -1074i64) } else { (frac | (1u64 << 52), exp - 1075) };
    let big_m: u128 = (m as u128) * ((n.max(1) - 1) as u128);
    if big_m == 0 {
        return json!({"k": 0, "int": true, "hc": -1, "up": false, "dn": false, "half": false});
    }
    if e >= 0 {
        let p = big_m << e;
        return json!({"k": p as i64, "int": true, "hc": -1, "up": false, "dn": false, "half": false});
    }
    let sh = (-e) as u32;
    if sh >= 120 {
        // P is astronomically small: floor 0, fraction far below 1/2
        return json!({"k": 0, "int": false, "hc": -1, "up": false, "dn": false, "half": false});
    }
    let one: u128 = 1u128 << sh;
    let k = big_m >> sh;
    let f = big_m & (one - 1);
    let half = one >> 1;
    let exact_product = (128 - big_m.leading_zeros()) - big_m.trailing_zeros() <= 53;
    let slack_ok = |d: u128| -> bool { !exact_product && d.checked_mul(1u128 << 53).map(|x| x <= big_m).unwrap_or(false) };
    let hc = if f < half { -1 } else if f == half { 0 } else { 1 };
    json!({"k": k as i64, "int": f == 0, "hc": hc,
           "up": f != 0 && slack_ok(one - f),
           "dn": f != 0 && slack_ok(f),
           "half": f != half && slack_ok(if f > half { f - half } else { half - f })})
}

// --------------------------------------------------------------------------- element types

pub trait QElem: Ord + Clone + 'static {
    const NAME: &'static str;
    const SIGNED_INT: bool;
    /// value for the small integer v (|v| < 2^20) with the base 2^bexp (bexp < 0: no base)
    fn make(v: i64, bexp: i64) -> Self;
    /// the scaled integer of a value (inverse of make on exact values; rounds for floats), None if far out of range
    fn scaled(&self, bexp: i64) -> Option<i64>;
    fn scale() -> i64;
    fn tmax() -> Option<i128>;
}

macro_rules! qelem_int {
    ($t:ty, $name:expr, $signed:expr) => {
        impl QElem for $t {
            const NAME: &'static str = $name;
            const SIGNED_INT: bool = $signed;
            fn make(v: i64, bexp: i64) -> Self {
                // two-scale mode (bexp = 1000 + E): v = g * 2^22 + (c + 2^21) stands for g * 2^E + c - values of very
                // different magnitude in one lane, with an order-preserving projection that is linear on each group
                if bexp >= 1000 { let e = bexp - 1000; let (g, c) = ((v >> 22) as i128, ((v & 0x3f_ffff) - (1 << 21)) as i128); return (g * (1i128 << e) + c) as $t; }
                let base: i128 = if bexp < 0 { 0 } else { 1i128 << bexp };
                (base + v as i128) as $t
            }
            fn scaled(&self, bexp: i64) -> Option<i64> {
                if bexp >= 1000 {
                    let e = bexp - 1000; let x = *self as i128;
                    let g = (x + (1i128 << (e - 1))) >> e; let c = x - g * (1i128 << e);
                    return if (0..64).contains(&g) && c.abs() < (1 << 21) { Some(((g << 22) + c + (1 << 21)) as i64) } else { None };
                }
                let base: i128 = if bexp < 0 { 0 } else { 1i128 << bexp };
                let d = (*self as i128) - base;
                if d.abs() < (1 << 29) { Some(d as i64) } else { None }
            }
            fn scale() -> i64 { 1 }
            fn tmax() -> Option<i128> { Some(<$t>::MAX as i128) }
        }
    };
}
qelem_int!(i8, "i8", true);
qelem_int!(u8, "u8", false);
qelem_int!(i16, "i16", true);
qelem_int!(i32, "i32", true);
qelem_int!(i64, "i64", true);
qelem_int!(u64, "u64", false);

impl QElem for N64 {
    const NAME: &'static str = "n64";
    const SIGNED_INT: bool = false;
    fn make(v: i64, bexp: i64) -> Self {
        let base = if bexp < 0 { 0.0 } else { (2.0f64).powi(bexp as i32) };
        n64(base + (v as f64) / 4.0)
    }
    fn scaled(&self, bexp: i64) -> Option<i64> {
        let base = if bexp < 0 { 0.0 } else { (2.0f64).powi(bexp as i32) };
        let d = (self.raw() - base) * 1024.0;
        if d.abs() < (1u64 << 29) as f64 { Some(d.round() as i64) } else { None }
    }
    fn scale() -> i64 { 256 }
    fn tmax() -> Option<i128> { None }
}

macro_rules! with_qelem {
    ($name:expr, $f:ident, $($arg:expr),*) => {
        match $name {
            "i8" => $f::<i8>($($arg),*),
            "u8" => $f::<u8>($($arg),*),
            "i16" => $f::<i16>($($arg),*),
            "i32" => $f::<i32>($($arg),*),
            "i64" => $f::<i64>($($arg),*),
            "u64" => $f::<u64>($($arg),*),
            "n64" => $f::<N64>($($arg),*),
            other => panic!("unknown quantile element type {other}"),
        }
    };
}

fn fallback(name: &str) -> Fallback {
    match name { "first" => Fallback::First, "last" => Fallback::Last, "middle" => Fallback::Middle, _ => Fallback::Drawn }
}

fn err_json(e: &QuantileError) -> Value {
    match e {
        QuantileError::EmptyInput => json!("EmptyInput"),
        QuantileError::InvalidQuantile(_) => json!("InvalidQuantile"),
    }
}

trait StratNum: QElem + num_traits::NumOps + num_traits::FromPrimitive + num_traits::ToPrimitive {}
impl<T: QElem + num_traits::NumOps + num_traits::FromPrimitive + num_traits::ToPrimitive> StratNum for T {}

fn bulk_call<T: StratNum>(v: &mut ArrayViewMutD<'_, T>, axis: usize, qs: &Array1<N64>, strat: &str) -> Result<ArrayD<T>, QuantileError> {
    match strat {
        "lower" => v.quantiles_axis_mut(Axis(axis), qs, &Lower),
        "higher" => v.quantiles_axis_mut(Axis(axis), qs, &Higher),
        "nearest" => v.quantiles_axis_mut(Axis(axis), qs, &Nearest),
        "midpoint" => v.quantiles_axis_mut(Axis(axis), qs, &Midpoint),
        "linear" => v.quantiles_axis_mut(Axis(axis), qs, &Linear),
        _ => panic!("strategy {strat}"),
    }
}

fn single_call<T: StratNum>(v: &mut ArrayViewMutD<'_, T>, axis: usize, q: N64, strat: &str) -> Result<ArrayD<T>, QuantileError> {
    match strat {
        "lower" => v.quantile_axis_mut(Axis(axis), q, &Lower),
        "higher" => v.quantile_axis_mut(Axis(axis), q, &Higher),
        "nearest" => v.quantile_axis_mut(Axis(axis), q, &Nearest),
        "midpoint" => v.quantile_axis_mut(Axis(axis), q, &Midpoint),
        "linear" => v.quantile_axis_mut(Axis(axis), q, &Linear),
        _ => panic!("strategy {strat}"),
    }
}

fn one_d_bulk<T: StratNum>(v: &mut ArrayViewMut1<'_, T>, qs: &Array1<N64>, strat: &str) -> Result<Array1<T>, QuantileError> {
    match strat {
        "lower" => v.quantiles_mut(qs, &Lower),
        "higher" => v.quantiles_mut(qs, &Higher),
        "nearest" => v.quantiles_mut(qs, &Nearest),
        "midpoint" => v.quantiles_mut(qs, &Midpoint),
        "linear" => v.quantiles_mut(qs, &Linear),
        _ => panic!("strategy {strat}"),
    }
}

fn one_d_single<T: StratNum>(v: &mut ArrayViewMut1<'_, T>, q: N64, strat: &str) -> Result<T, QuantileError> {
    match strat {
        "lower" => v.quantile_mut(q, &Lower),
        "higher" => v.quantile_mut(q, &Higher),
        "nearest" => v.quantile_mut(q, &Nearest),
        "midpoint" => v.quantile_mut(q, &Midpoint),
        "linear" => v.quantile_mut(q, &Linear),
        _ => panic!("strategy {strat}"),
    }
}

fn unravel(shape: &[usize], mut t: usize) -> Vec<usize> {
    let mut idx = vec![0; shape.len()];
    for k in (0..shape.len()).rev() {
        if shape[k] > 0 { idx[k] = t % shape[k]; t /= shape[k]; }
    }
    idx
}

/// Lanes of `v` along `axis`, in row-major order of the remaining axes.
fn lanes_of<T: Clone>(v: &ArrayViewD<'_, T>, axis: usize) -> Vec<Vec<T>> {
    let shape = v.shape().to_vec();
    let mut rest = shape.clone();
    rest.remove(axis);
    let nl: usize = rest.iter().product();
    let mut out = Vec::with_capacity(nl);
    for t in 0..nl {
        let mut idx = unravel(&rest, t);
        idx.insert(axis, 0);
        let mut lane = Vec::with_capacity(shape[axis]);
        for x in 0..shape[axis] {
            idx[axis] = x;
            lane.push(v[IxDyn(&idx)].clone());
        }
        out.push(lane);
    }
    out
}

fn proj_vals<T: QElem>(xs: &[T], bexp: i64) -> Vec<i64> {
    xs.iter().map(|x| x.scaled(bexp).unwrap_or(-(1 << 29))).collect()
}

/// The main quantile event: one call of the chosen API on an n-D view, with everything the
/// specification needs: lanes before (values), per-q exact position info, result, geometry, memory.
fn quantile_ev<T: StratNum>(case: &Value, out: &mut Vec<Value>) {
    let lay = Lay::from_json(&case["lay"]);
    let axis = jint(case, "axis") as usize;
    let bexp = case.get("bexp").and_then(|x| x.as_i64()).unwrap_or(-1);
    let data: Vec<T> = jints(&case["data"]).iter().map(|&v| T::make(v, bexp)).collect();
    let strat = jstr(case, "strat", "lower");
    let api = jstr(case, "api", "axis_bulk");
    let qspecs: Vec<Value> = case["qs"].as_array().cloned().unwrap_or_default();
    let qv: Vec<f64> = qspecs.iter().map(make_q).collect();
    let qs: Array1<N64> = qv.iter().map(|&q| n64(q)).collect();
    let script: Vec<usize> = jints(&case["pv"]).into_iter().map(|x| x as usize).collect();
    let fb = fallback(jstr(case, "fb", "drawn"));
    let pad = T::make(-7, bexp);
    let mut parent = lay.build(&data, |_| pad.clone());
    let base = parent.as_ptr();
    let (g, lanes) = { let v = lay.view(&parent); (geom(base, &v), lanes_of(&v, axis)) };
    let n = lay.shape()[axis];
    let mem0 = proj_vals(&mem_of(&parent), bexp);
    let wide = match T::tmax() {
        Some(mx) if T::SIGNED_INT => lanes.iter().any(|l| {
            let s = proj_vals(l, bexp);
            match (s.iter().max(), s.iter().min()) { (Some(a), Some(b)) => (*a as i128 - *b as i128) > mx, _ => false }
        }),
        _ => false,
    };
    verif_hooks::set_script(script.clone(), fb);
    // result: flattened logical order + shape; singles: per q the flattened single-call result on a fresh copy
    // g1: the receiver's own geometry (shape, strides, first element) after the call, read from the receiver object
    let g1cell: std::cell::RefCell<Option<Value>> = std::cell::RefCell::new(None);
    let r = guarded(|| {
        let mut v = lay.view_mut(&mut parent);
        match api {
            "axis_bulk" => { let r = bulk_call(&mut v, axis, &qs, strat).map(|a| (a.shape().to_vec(), a.iter().cloned().collect::<Vec<T>>())); *g1cell.borrow_mut() = Some(geom(base, &v)); r }
            "axis_single" => { let r = single_call(&mut v, axis, qs[0], strat).map(|a| (a.shape().to_vec(), a.iter().cloned().collect::<Vec<T>>())); *g1cell.borrow_mut() = Some(geom(base, &v)); r }
            "1d_bulk" => { let mut v1 = v.into_dimensionality::<Ix1>().unwrap(); let r = one_d_bulk(&mut v1, &qs, strat).map(|a| (a.shape().to_vec(), a.to_vec())); *g1cell.borrow_mut() = Some(geom(base, &v1)); r }
            "1d_single" => { let mut v1 = v.into_dimensionality::<Ix1>().unwrap(); let r = one_d_single(&mut v1, qs[0], strat).map(|x| (vec![], vec![x])); *g1cell.borrow_mut() = Some(geom(base, &v1)); r }
            _ => panic!("api {api}"),
        }
    });
    let g1 = g1cell.into_inner();
    let pvlog = verif_hooks::take_log();
    let mem1 = proj_vals(&mem_of(&parent), bexp);
    // the same call once more on the (now rearranged) buffer, under fresh random pivots: the answer must not change
    verif_hooks::set_script(vec![], Fallback::Drawn);
    let r2 = guarded(|| {
        let mut v = lay.view_mut(&mut parent);
        match api {
            "axis_bulk" => bulk_call(&mut v, axis, &qs, strat).map(|a| a.iter().cloned().collect::<Vec<T>>()),
            "axis_single" => single_call(&mut v, axis, qs[0], strat).map(|a| a.iter().cloned().collect::<Vec<T>>()),
            "1d_bulk" => { let mut v1 = v.into_dimensionality::<Ix1>().unwrap(); one_d_bulk(&mut v1, &qs, strat).map(|a| a.to_vec()) }
            _ => { let mut v1 = v.into_dimensionality::<Ix1>().unwrap(); one_d_single(&mut v1, qs[0], strat).map(|x| vec![x]) }
        }
    });
    verif_hooks::take_log();
    let (out2, res2) = match &r2 { Ok(Ok(vals)) => ("ok".to_string(), proj_vals(vals, bexp)), Ok(Err(e)) => (err_json(e).as_str().unwrap().to_string(), vec![]), Err(()) => ("panic".to_string(), vec![]) };
    let qi: Vec<Value> = qv.iter().zip(qspecs.iter()).map(|(&q, s)| {
        let mut o = qinfo(q, n);
        o.as_object_mut().unwrap().insert("a".into(), s["a"].clone());
        o.as_object_mut().unwrap().insert("b".into(), s["b"].clone());
        o.as_object_mut().unwrap().insert("u".into(), json!(s.get("u").and_then(|x| x.as_i64()).unwrap_or(0)));
        o
    }).collect();
    let (outc, rshape, res) = match &r {
        Ok(Ok((sh, vals))) => ("ok".to_string(), sh.clone(), proj_vals(vals, bexp)),
        Ok(Err(e)) => (err_json(e).as_str().unwrap().to_string(), vec![], vec![]),
        Err(()) => ("panic".to_string(), vec![], vec![]),
    };
    let mut o = json!({"ev": "quantile", "ty": T::NAME, "strat": strat, "api": api, "axis": axis, "g": g, "lay": lay.to_json(),
        "scale": T::scale(), "wide": wide,
        "lanes": lanes.iter().map(|l| proj_vals(l, bexp)).collect::<Vec<_>>(), "qs": qi,
        "out": outc, "rshape": rshape, "res": res, "out2": out2, "res2": res2, "mem0": mem0, "mem1": mem1, "npiv": pvlog.len()});
    if let Some(g1) = g1 { o.as_object_mut().unwrap().insert("g1".into(), g1); }
    // C18: the same request item by item on fresh copies
    if case.get("pair").and_then(|x| x.as_bool()).unwrap_or(false) {
        let mut singles: Vec<Value> = Vec::new();
        for &q in &qv {
            let mut p2 = lay.build(&data, |_| pad.clone());
            verif_hooks::set_script(vec![], Fallback::Drawn);
            let s = guarded(|| {
                let mut v = lay.view_mut(&mut p2);
                if api.starts_with("1d") {
                    let mut v1 = v.into_dimensionality::<Ix1>().unwrap();
                    one_d_single(&mut v1, n64(q), strat).map(|x| vec![x])
                } else {
                    single_call(&mut v, axis, n64(q), strat).map(|a| a.iter().cloned().collect::<Vec<T>>())
                }
            });
            verif_hooks::take_log();
            singles.push(match s { Ok(Ok(vals)) => json!({"out": "ok", "res": proj_vals(&vals, bexp)}),
                                   Ok(Err(e)) => json!({"out": err_json(&e), "res": []}),
                                   Err(()) => json!({"out": "panic", "res": []}) });
        }
        o.as_object_mut().unwrap().insert("singles".into(), Value::from(singles));
    }
    out.push(o);
}

/// Order laws (C19): all five strategies on one lane over an ascending list of q's, on the lane,
/// on a permuted copy and on a strictly increasing relabelling; values in doubled-rank space
/// relative to the lane's own values, so no value oracle is involved.
fn qlaws_ev<T: StratNum>(case: &Value, out: &mut Vec<Value>) {
    let bexp = case.get("bexp").and_then(|x| x.as_i64()).unwrap_or(-1);
    let raw = jints(&case["lane"]);
    let lane: Vec<T> = raw.iter().map(|&v| T::make(v, bexp)).collect();
    let perm: Vec<usize> = jints(&case["perm"]).into_iter().map(|x| x as usize).collect();
    let relabel = jints(&case["relabel"]); // strictly increasing map applied to the sorted distinct raw values
    let qspecs: Vec<Value> = case["qs"].as_array().cloned().unwrap_or_default();
    let qv: Vec<f64> = qspecs.iter().map(make_q).collect();
    let qs: Array1<N64> = qv.iter().map(|&q| n64(q)).collect();
    let stride = case.get("stride").and_then(|x| x.as_i64()).unwrap_or(1) as isize;
    let fb = fallback(jstr(case, "fb", "drawn"));
    let rm = rank_map(&lane);
    let run = |lane: &[T], rm: &std::collections::BTreeMap<T, i64>| -> Value {
        let mut res = serde_json::Map::new();
        let mut failed: Vec<&str> = Vec::new();
        for &s in STRATS {
            let mut st = Strided::new(lane, stride, 1, |_| lane[0].clone());
            verif_hooks::set_script(vec![], fb);
            let r = guarded(|| { let mut v = st.view_mut(); one_d_bulk(&mut v, &qs, s) });
            verif_hooks::take_log();
            res.insert(s.to_string(), match r {
                Ok(Ok(a)) => json!(a.iter().map(|x| rank2_of(rm, x)).collect::<Vec<_>>()),
                Ok(Err(_)) => { failed.push(s); json!([]) }
                Err(()) => { failed.push(s); json!([]) }
            });
        }
        res.insert("failed".to_string(), json!(failed));
        Value::Object(res)
    };
    let base_res = run(&lane, &rm);
    // ONE object, one call per (strategy, q) in sequence: every call leaves the lane permuted, so each later call is a
    // call on a permutation of the same data and must return what the first one would have
    let seq_res = {
        let mut res = serde_json::Map::new();
        let mut failed: Vec<&str> = Vec::new();
        let mut st = Strided::new(&lane, stride, 1, |_| lane[0].clone());
        for &s in STRATS {
            let mut vals = Vec::new();
            for &q in &qv {
                verif_hooks::set_script(vec![], fb);
                let r = guarded(|| { let mut v = st.view_mut(); one_d_single(&mut v, n64(q), s) });
                verif_hooks::take_log();
                match r { Ok(Ok(x)) => vals.push(rank2_of(&rm, &x)), _ => { if !failed.contains(&s) { failed.push(s); } } }
            }
            res.insert(s.to_string(), json!(vals));
        }
        res.insert("failed".to_string(), json!(failed));
        Value::Object(res)
    };
    // the NaN-skipping form on ONE f64 object holding the same values plus NaNs, again call after call
    let skip_res = if T::NAME == "n64" && case.get("nanpos").is_some() {
        let mut data: Vec<f64> = lane.iter().map(|x| x.to_f64().unwrap()).collect();
        let mut pos = jints(&case["nanpos"]);
        pos.sort();
        for (k, p) in pos.iter().enumerate() { data.insert((*p as usize + k).min(data.len()), nan64()); }
        let mut st = Strided::new(&data, stride, 1, |_| 0.25f64);
        let mut res = serde_json::Map::new();
        let mut failed: Vec<&str> = Vec::new();
        for &s in STRATS {
            let mut vals = Vec::new();
            for &q in &qv {
                verif_hooks::set_script(vec![], fb);
                let r = guarded(|| { let mut v = st.view_mut(); match s {
                    "lower" => v.quantile_axis_skipnan_mut(Axis(0), n64(q), &Lower),
                    "higher" => v.quantile_axis_skipnan_mut(Axis(0), n64(q), &Higher),
                    "nearest" => v.quantile_axis_skipnan_mut(Axis(0), n64(q), &Nearest),
                    "midpoint" => v.quantile_axis_skipnan_mut(Axis(0), n64(q), &Midpoint),
                    _ => v.quantile_axis_skipnan_mut(Axis(0), n64(q), &Linear),
                } });
                verif_hooks::take_log();
                match r {
                    Ok(Ok(x)) if !x.iter().next().unwrap().is_nan() => vals.push(rank2_of(&rm, &T::from_f64(*x.iter().next().unwrap()).unwrap())),
                    _ => { if !failed.contains(&s) { failed.push(s); } }
                }
            }
            res.insert(s.to_string(), json!(vals));
        }
        res.insert("failed".to_string(), json!(failed));
        Some(Value::Object(res))
    } else { None };
    // ... and on ONE Option<N64> object (missing = None; the not-missing wrapper type NotNone<N64> carries the arithmetic)
    let oskip_res = if T::NAME == "n64" && case.get("nanpos").is_some() {
        let mut data: Vec<Option<N64>> = lane.iter().map(|x| Some(n64(x.to_f64().unwrap()))).collect();
        let mut pos = jints(&case["nanpos"]);
        pos.sort();
        for (k, p) in pos.iter().enumerate() { data.insert((*p as usize + k).min(data.len()), None); }
        let mut st = Strided::new(&data, stride, 1, |_| Some(n64(0.25)));
        let mut res = serde_json::Map::new();
        let mut failed: Vec<&str> = Vec::new();
        for &s in STRATS {
            let mut vals = Vec::new();
            for &q in &qv {
                verif_hooks::set_script(vec![], fb);
                let r = guarded(|| { let mut v = st.view_mut(); match s {
                    "lower" => v.quantile_axis_skipnan_mut(Axis(0), n64(q), &Lower),
                    "higher" => v.quantile_axis_skipnan_mut(Axis(0), n64(q), &Higher),
                    "nearest" => v.quantile_axis_skipnan_mut(Axis(0), n64(q), &Nearest),
                    "midpoint" => v.quantile_axis_skipnan_mut(Axis(0), n64(q), &Midpoint),
                    _ => v.quantile_axis_skipnan_mut(Axis(0), n64(q), &Linear),
                } });
                verif_hooks::take_log();
                match r {
                    Ok(Ok(x)) if x.iter().next().unwrap().is_some() => vals.push(rank2_of(&rm, &T::from_f64(x.iter().next().unwrap().unwrap().raw()).unwrap())),
                    _ => { if !failed.contains(&s) { failed.push(s); } }
                }
            }
            res.insert(s.to_string(), json!(vals));
        }
        res.insert("failed".to_string(), json!(failed));
        Value::Object(res)
    } else { seq_res.clone() };
    let permuted: Vec<T> = perm.iter().map(|&k| lane[k].clone()).collect();
    let perm_res = run(&permuted, &rm);
    // relabelled copy: the r-th smallest distinct raw value becomes relabel[r]
    let mut distinct = raw.clone();
    distinct.sort();
    distinct.dedup();
    let relabelled: Vec<T> = raw.iter().map(|v| T::make(relabel[distinct.binary_search(v).unwrap()], bexp)).collect();
    let rm2 = rank_map(&relabelled);
    let rel_res = run(&relabelled, &rm2);
    let n = lane.len();
    let qi: Vec<Value> = qv.iter().map(|&q| qinfo(q, n)).collect();
    let wide = match T::tmax() {
        Some(mx) if T::SIGNED_INT => { let s = proj_vals(&lane, bexp); (*s.iter().max().unwrap() as i128 - *s.iter().min().unwrap() as i128) > mx }
        _ => false,
    };
    let hasskip = skip_res.is_some();
    let skip_res = skip_res.unwrap_or_else(|| seq_res.clone());
    out.push(json!({"ev": "qlaws", "ty": T::NAME, "n": n, "seq": seq_res, "skip": skip_res, "oskip": oskip_res, "hasskip": hasskip, "lane": ranks_of(&rm, &lane).iter().map(|r| 2 * r).collect::<Vec<_>>(),
        "qs": qi, "qord": qv.windows(2).all(|w| w[0] <= w[1]), "res": base_res, "perm": perm_res, "rel": rel_res,
        "isfloat": T::NAME == "n64", "wide": wide, "big": bexp > 51, "nomid": case.get("nomid").and_then(|x| x.as_bool()).unwrap_or(false)}));
}

/// C19 on lanes of n-D arrays: q = 0 gives each lane's minimum and q = 1 its maximum for every strategy, at the position of
/// that lane in a result that has the input's shape without the axis.  Lanes are read through ndarray's `lanes()`.
fn ndlaws_ev<T: StratNum>(case: &Value, out: &mut Vec<Value>) {
    let lay = Lay::from_json(&case["lay"]);
    let axis = jint(case, "axis") as usize;
    let data: Vec<T> = jints(&case["data"]).iter().map(|&v| T::make(v, -1)).collect();
    let pad = T::make(-7, -1);
    let parent0 = lay.build(&data, |_| pad.clone());
    let lanes: Vec<Vec<T>> = { let v = lay.view(&parent0); lanes_of(&v, axis) };
    let mut all: Vec<T> = data.clone();
    all.push(pad.clone());
    let rm = rank_map(&all);
    let mut shape = lay.shape();
    shape.remove(axis);
    let mut res0 = serde_json::Map::new();
    let mut res1 = serde_json::Map::new();
    let mut shape_ok = true;
    let mut failed: Vec<&str> = Vec::new();
    for &s in STRATS {
        for (q, dst) in [(0.0, &mut res0), (1.0, &mut res1)] {
            let mut parent = parent0.clone();
            verif_hooks::set_script(vec![], Fallback::Drawn);
            let r = guarded(|| { let mut v = lay.view_mut(&mut parent); single_call(&mut v, axis, n64(q), s) });
            verif_hooks::take_log();
            match r {
                Ok(Ok(a)) => { if a.shape() != &shape[..] { shape_ok = false; } dst.insert(s.to_string(), json!(a.iter().map(|x| rank2_of(&rm, x)).collect::<Vec<_>>())); }
                _ => { if !failed.contains(&s) { failed.push(s); } dst.insert(s.to_string(), json!([])); }
            }
        }
    }
    let mut o = json!({"ev": "ndlaws", "ty": T::NAME, "axis": axis, "shape": lay.shape(), "lanes": lanes.iter().map(|l| l.iter().map(|x| rank2_of(&rm, x)).collect::<Vec<_>>()).collect::<Vec<_>>(),
        "res0": res0, "res1": res1, "shape_ok": shape_ok, "failed": failed});
    // the NaN-skipping form on the same array with some elements replaced by NaN (f64 storage): q = 0 / q = 1 give each lane's
    // minimum / maximum over the elements it keeps, lane by lane, whatever the neighbouring lanes hold; -1 = the missing value
    if T::NAME == "n64" && case.get("nanmask").is_some() {
        let mask: Vec<usize> = jints(&case["nanmask"]).into_iter().map(|x| x as usize).collect();
        let fdata: Vec<f64> = data.iter().enumerate().map(|(i, x)| if mask.contains(&i) { nan64() } else { x.to_f64().unwrap() }).collect();
        let fparent0 = lay.build(&fdata, |_| -1.75);
        let klanes: Vec<Vec<i64>> = { let v = lay.view(&fparent0); lanes_of(&v, axis).iter().map(|l| l.iter().filter(|x| !x.is_nan()).map(|&x| rank2_of(&rm, &T::from_f64(x).unwrap())).collect()).collect() };
        let mut s0 = serde_json::Map::new();
        let mut s1 = serde_json::Map::new();
        let mut sfailed: Vec<&str> = Vec::new();
        for &s in STRATS {
            for (q, dst) in [(0.0, &mut s0), (1.0, &mut s1)] {
                let mut parent = fparent0.clone();
                verif_hooks::set_script(vec![], Fallback::Drawn);
                let r = guarded(|| { let mut v = lay.view_mut(&mut parent); match s {
                    "lower" => v.quantile_axis_skipnan_mut(Axis(axis), n64(q), &Lower),
                    "higher" => v.quantile_axis_skipnan_mut(Axis(axis), n64(q), &Higher),
                    "nearest" => v.quantile_axis_skipnan_mut(Axis(axis), n64(q), &Nearest),
                    "midpoint" => v.quantile_axis_skipnan_mut(Axis(axis), n64(q), &Midpoint),
                    _ => v.quantile_axis_skipnan_mut(Axis(axis), n64(q), &Linear),
                } });
                verif_hooks::take_log();
                match r {
                    Ok(Ok(a)) => { dst.insert(s.to_string(), json!(a.iter().map(|&x| if x.is_nan() { -1 } else { rank2_of(&rm, &T::from_f64(x).unwrap()) }).collect::<Vec<i64>>())); }
                    _ => { if !sfailed.contains(&s) { sfailed.push(s); } dst.insert(s.to_string(), json!([])); }
                }
            }
        }
        let m = o.as_object_mut().unwrap();
        m.insert("klanes".into(), json!(klanes));
        m.insert("sres0".into(), Value::Object(s0));
        m.insert("sres1".into(), Value::Object(s1));
        m.insert("sfailed".into(), json!(sfailed));
    }
    out.push(o);
}

pub fn run(case: &Value, params: &Params, out: &mut Vec<Value>) {
    let ev = jstr(case, "ev", "");
    if case.get("ty").is_none() {
        // model-generated case (TLC): a bare lane + requests + strategy over a 4-bit type.  Replay it
        // on each requested element type: as is (small values) and, for i8, scaled by 16 so that the
        // 4-bit overflow conditions coincide with the 8-bit ones; on a plain and on a reversed/stepped view.
        let types: Vec<&str> = params.get("types").map(|s| s.split('/').collect()).unwrap_or_else(|| vec!["i8", "i64", "n64"]);
        let data = jints(&case["data"]);
        let n = data.len();
        for ty in types {
            for (mul, lay) in [(1i64, Lay::plain(&[n], false)), (16, Lay { pshape: vec![2 * n + 1], forder: false, sl: vec![(1, 2 * n as isize, -2)], perm: vec![0] })] {
                if mul == 16 && ty != "i8" { continue; }
                if ty == "u8" && data.iter().any(|&v| v < 0) { continue; }
                let mut c = case.clone();
                let o = c.as_object_mut().unwrap();
                o.insert("ty".into(), json!(ty));
                o.insert("data".into(), json!(data.iter().map(|v| v * mul).collect::<Vec<_>>()));
                o.insert("lay".into(), lay.to_json());
                o.insert("axis".into(), json!(0));
                o.insert("api".into(), json!(if case["qs"].as_array().map(|a| a.len()).unwrap_or(0) == 1 && mul == 1 { "1d_single" } else { "axis_bulk" }));
                o.insert("pair".into(), json!(params.get("pair").map(|s| s == "1").unwrap_or(false)));
                run(&c, params, out);
            }
        }
        return;
    }
    let ty = jstr(case, "ty", "i64");
    match ev {
        "quantile" => with_qelem!(ty, quantile_ev, case, out),
        "qlaws" => with_qelem!(ty, qlaws_ev, case, out),
        "ndlaws" => with_qelem!(ty, ndlaws_ev, case, out),
        _ => panic!("unknown quant event {ev}"),
    }
}

// --------------------------------------------------------------------------- generators

const DENS: &[i64] = &[1, 2, 3, 4, 5, 7, 8, 10, 16, 100];

fn random_q(rng: &mut Rng, n: usize) -> Value {
    let us: &[i64] = &[0, 0, 0, 1, -1, 4, -4, 1000, -1000, 1000_000, -1000_000];
    // half the time aim at k/(n-1) or (k+1/2)/(n-1) exactly
    if n >= 2 && rng.chance(1, 2) {
        let m = (n - 1) as i64;
        if rng.chance(1, 2) {
            let k = rng.range(0, m);
            json!({"a": k, "b": m, "u": *rng.pick(us)})
        } else {
            let k = rng.range(0, m - 1);
            json!({"a": 2 * k + 1, "b": 2 * m, "u": *rng.pick(us)})
        }
    } else {
        let b = *rng.pick(DENS);
        json!({"a": rng.range(0, b), "b": b, "u": *rng.pick(us)})
    }
}

fn random_lane_vals(rng: &mut Rng, n: usize, ty: &str, strat: &str) -> (Vec<i64>, i64) {
    // (values, bexp)
    let (lo, hi, bexp): (i64, i64, i64) = match ty {
        "i8" => (-128, 127, -1),
        "u8" => (0, 255, -1),
        "i16" => (-32768, 32767, -1),
        "i32" => (-(1 << 19), 1 << 19, if rng.chance(1, 3) { 30 } else { -1 }),
        "i64" => (-(1 << 19), 1 << 19, *rng.pick(&[-1, 40, 50, if strat == "linear" { 51 } else { 62 }])),
        "u64" => (0, 1 << 19, *rng.pick(&[-1, 40, 50, if strat == "linear" { 51 } else { 63 }])),
        _ => (-(1 << 10), 1 << 10, *rng.pick(&[-1, -1, 10, 30])),
    };
    let style = rng.below(5);
    let vals = (0..n).map(|_| match style {
        0 => rng.range(lo, hi),                                   // full range (extremes)
        1 => *rng.pick(&[lo, hi, lo + 1, hi - 1, (lo + hi) / 2]), // extremes and ties
        2 => rng.range(0.max(lo), 3.min(hi)),                     // heavy duplicates
        3 => rng.range((-50i64).max(lo), 50.min(hi)),
        _ => rng.range(lo / 2, hi / 2),
    }).collect();
    (vals, bexp)
}

pub fn gen(seed: u64, count: usize, tier: &str, params: &Params) -> Vec<Value> {
    let mut rng = Rng(seed ^ 0x9047);
    let kinds: Vec<&str> = params.get("kinds").map(|s| s.split('/').collect()).unwrap_or_else(|| vec!["quantile"]);
    let pair = params.get("pair").map(|s| s == "1").unwrap_or(false);
    let badq = params.get("badq").map(|s| s == "1").unwrap_or(false);
    let types: Vec<&str> = params.get("types").map(|s| s.split('/').collect()).unwrap_or_else(|| vec!["i8", "u8", "i32", "i64", "u64", "n64"]);
    let maxn = if tier == "thorough" { 9 } else { 6 };
    let mut cases = Vec::new();
    for _ in 0..count {
        let ty = *rng.pick(&types);
        let strat = *rng.pick(STRATS);
        let fb = *rng.pick(&["drawn", "drawn", "first", "last", "middle"]);
        match *rng.pick(&kinds) {
            "quantile" if params.get("deep").map(|s| s == "1").unwrap_or(false) => {
                // a long run of equal values (deep recursion whatever the pivots) with sparse requests around its upper end
                let ty = *rng.pick(&["i8", "u8", "i32", "i64", "n64"]);
                let run = rng.range(70, 260);
                let below = rng.range(0, 3);
                let above = rng.range(1, 8);
                let mut data: Vec<i64> = Vec::new();
                for k in 0..below { data.push(1 + k); }
                for _ in 0..run { data.push(below + 1); }
                for k in 0..above { data.push(below + 2 + if rng.chance(1, 3) { k / 2 } else { k }); }
                let n = data.len();
                if rng.chance(1, 2) { for k in (1..n).rev() { let j = rng.below(k as u64 + 1) as usize; data.swap(k, j); } }
                let m = (n - 1) as i64;
                let nq = rng.range(1, 4);
                let mut qs: Vec<Value> = (0..nq).map(|_| { let k = (m - rng.range(0, above + 2)).max(0); if rng.chance(1, 3) { json!({"a": 2 * k - 1, "b": 2 * m, "u": 0}) } else { json!({"a": k, "b": m, "u": *rng.pick(&[0i64, 0, 1, -1])}) } }).collect();
                if rng.chance(1, 3) { let d = qs[0].clone(); qs.push(d); }
                cases.push(json!({"ev": "quantile", "ty": ty, "strat": strat, "api": *rng.pick(&["1d_bulk", "axis_bulk"]), "lay": Lay::plain(&[n], false).to_json(), "axis": 0,
                                  "data": data, "bexp": -1, "qs": qs, "pv": [], "fb": fb, "pair": pair}));
            }
            "quantile" if rng.chance(1, 12) => {
                // 64-bit lanes mixing magnitudes (values near 0 and near 2^62): Midpoint between neighbours more than 2^53 apart is
                // exactly representable and must be exact (two-scale projection, see QElem::make)
                let ty = *rng.pick(&["i64", "u64"]);
                let strat = *rng.pick(&["midpoint", "midpoint", "lower", "higher", "nearest"]);
                let n = rng.range(2, 8) as usize;
                let data: Vec<i64> = (0..n).map(|_| { let g = if rng.chance(1, 2) { 0i64 } else { 2 }; (g << 22) + rng.range(-1000, 1000) + (1 << 21) }).collect();
                let nq = rng.range(1, 4) as usize;
                let qs: Vec<Value> = (0..nq).map(|_| random_q(&mut rng, n)).collect();
                cases.push(json!({"ev": "quantile", "ty": ty, "strat": strat, "api": *rng.pick(&["1d_bulk", "axis_bulk"]), "lay": Lay::plain(&[n], false).to_json(), "axis": 0,
                                  "data": data, "bexp": 1061, "qs": qs, "pv": [], "fb": fb, "pair": pair}));
            }
            "quantile" if rng.chance(1, 6) => {
                // interpolation between equal or close neighbours under many non-dyadic q's: the result must stay inside [lower, higher]
                let ty = *rng.pick(&["i8", "u8", "i32", "i64", "u64", "n64"]);
                let strat = *rng.pick(&["linear", "linear", "midpoint"]);
                let n = rng.range(2, 12) as usize;
                let v0 = rng.range(1, 120);
                let style = rng.below(3);
                let data: Vec<i64> = (0..n).map(|_| match style { 0 => v0, 1 => v0 + rng.range(0, 1), _ => v0 + rng.range(0, 3) }).collect();
                let b = *rng.pick(&[100i64, 100, 1000, 7, 10]);
                let qs: Vec<Value> = (0..24).map(|_| json!({"a": rng.range(0, b), "b": b, "u": 0})).collect();
                cases.push(json!({"ev": "quantile", "ty": ty, "strat": strat, "api": "1d_bulk", "lay": Lay::plain(&[n], false).to_json(), "axis": 0,
                                  "data": data, "bexp": *rng.pick(&[-1i64, -1, 20]), "qs": qs, "pv": [], "fb": fb, "pair": pair}));
            }
            "quantile" => {
                let nd = rng.range(1, 3) as usize;
                let axis = rng.below(nd as u64) as usize;
                let mut shape: Vec<usize> = (0..nd).map(|_| rng.range(1, 3) as usize).collect();
                let long = rng.chance(1, 8);
                shape[axis] = if long { rng.range(17, 64) as usize } else { rng.range(1, maxn) as usize };
                if long { for (k, d) in shape.iter_mut().enumerate() { if k != axis { *d = (*d).min(2); } } }
                if nd > 1 && rng.chance(1, 15) { let other = (axis + 1) % nd; shape[other] = 0; }
                let fancy = rng.chance(2, 3) && shape[axis] <= 9;
                let lay = random_lay(&mut rng, &shape, fancy);
                let n: usize = shape.iter().product();
                let (mut data, bexp) = random_lane_vals(&mut rng, n, ty, strat);
                if long && nd == 1 {
                    // deep recursions of the selection: one dominant run of equal elements, or sorted data under a first / last pivot policy
                    match rng.below(4) {
                        0 | 1 => { let v0 = data[0]; let keep = rng.range(2, 5) as usize; for (k, d) in data.iter_mut().enumerate() { if k % (n / keep.min(n).max(1)).max(1) != 0 { *d = v0; } } }
                        2 => { data.sort(); }
                        _ => {}
                    }
                }
                let nq = if pair || rng.chance(1, 2) { rng.below(if tier == "thorough" { 12 } else { 5 }) as usize } else { 1 };
                let mut qs: Vec<Value> = (0..nq).map(|_| random_q(&mut rng, shape[axis])).collect();
                if nq >= 2 && rng.chance(1, 3) { let d = qs[0].clone(); qs.push(d); }
                // special request sets: only the two improper quantiles (in any order, with repeats), or one q repeated
                if nq >= 2 && rng.chance(1, 8) { qs = (0..nq).map(|k| if (k + rng.below(2) as usize) % 2 == 0 { json!({"a": 0, "b": 1, "u": 0}) } else { json!({"a": 1, "b": 1, "u": 0}) }).collect();
                                                 qs[0] = json!({"a": 1, "b": 1, "u": 0}); qs[1] = json!({"a": 0, "b": 1, "u": 0}); }
                else if nq >= 2 && rng.chance(1, 10) { let d = qs[0].clone(); qs = vec![d; nq]; }
                // request lists in ascending order (with their repeats adjacent), sometimes with two requests strictly inside one cell
                if qs.len() >= 2 && rng.chance(1, 3) {
                    if shape[axis] >= 2 && rng.chance(1, 2) {
                        let m = (shape[axis] - 1) as i64; let k = rng.range(0, m - 1);
                        qs[0] = json!({"a": 8 * k + 3, "b": 8 * m, "u": 0}); qs[1] = json!({"a": 8 * k + 5, "b": 8 * m, "u": 0});
                    }
                    qs.sort_by(|x, y| make_q(x).partial_cmp(&make_q(y)).unwrap());
                }
                // frame stages only: a request outside [0, 1] somewhere in the list (the call is rejected; the frame clauses hold for it too)
                if badq && !qs.is_empty() && rng.chance(1, 6) { let k = rng.below(qs.len() as u64) as usize; qs[k] = if rng.chance(1, 2) { json!({"a": 3, "b": 2, "u": 0, "bad": true}) } else { json!({"a": -1, "b": 4, "u": 0, "bad": true}) }; }
                let api = if nd == 1 && rng.chance(1, 2) { if nq == 1 && rng.chance(1, 2) { "1d_single" } else { "1d_bulk" } }
                          else if nq == 1 && rng.chance(1, 2) { "axis_single" } else { "axis_bulk" };
                let script: Vec<i64> = if rng.chance(1, 3) { (0..rng.below(6)).map(|_| rng.below(1000) as i64).collect() } else { vec![] };
                if (api == "axis_single" || api == "1d_single") && qs.is_empty() { continue; }
                cases.push(json!({"ev": "quantile", "ty": ty, "strat": strat, "api": api, "lay": lay.to_json(), "axis": axis,
                                  "data": data, "bexp": bexp, "qs": qs, "pv": script, "fb": fb, "pair": pair}));
            }
            "ndlaws" => {
                let nd = rng.range(2, 4) as usize;
                let shape: Vec<usize> = (0..nd).map(|_| rng.range(1, 3) as usize).collect();
                let axis = rng.below(nd as u64) as usize;
                let n: usize = shape.iter().product();
                let fancy = rng.chance(1, 2);
                let lay = random_lay(&mut rng, &shape, fancy);
                let data: Vec<i64> = (0..n).map(|_| rng.range(0, 60)).collect();
                let ty = *rng.pick(&["i8", "u8", "i64", "n64", "n64"]);
                let mut c = json!({"ev": "ndlaws", "ty": ty, "lay": lay.to_json(), "axis": axis, "data": data});
                // n64: some elements become NaN for the NaN-skipping pass (lanes shortened by different amounts next to complete ones)
                if ty == "n64" { let total = c["data"].as_array().unwrap().len(); let k = rng.below(total as u64 / 2 + 1) as usize;
                                 let mask: Vec<i64> = (0..k).map(|_| rng.below(total.max(1) as u64) as i64).collect(); c["nanmask"] = json!(mask); }
                cases.push(c);
            }
            "qlaws" if rng.chance(1, 12) => {
                // a signed 8-bit lane with neighbours more than i8::MAX apart: Linear with fractions <= 0.3 is representable
                // (fraction * gap <= 127), Midpoint is the known finding F6 and is left out ("nomid")
                let n = rng.range(2, 5) as usize;
                let mut lane: Vec<i64> = (0..n).map(|_| if rng.chance(1, 2) { rng.range(-128, -100) } else { rng.range(60, 127) }).collect();
                lane[0] = rng.range(-128, -100); lane[1] = rng.range(60, 127);
                let m = (n - 1) as i64;
                let mut qs: Vec<(i64, i64, i64)> = vec![(0, 1, 0), (1, 1, 0)];
                for k in 0..m { for a in 0..=3 { qs.push((10 * k + a, 10 * m, 0)); } }
                let mut specs: Vec<(f64, Value)> = qs.iter().map(|&(a, b, u)| { let s = json!({"a": a, "b": b, "u": u}); (make_q(&s), s) }).collect();
                specs.sort_by(|x, y| x.0.partial_cmp(&y.0).unwrap());
                let mut perm: Vec<usize> = (0..n).collect();
                for k in (1..n).rev() { let j = rng.below(k as u64 + 1) as usize; perm.swap(k, j); }
                let mut distinct = lane.clone(); distinct.sort(); distinct.dedup();
                cases.push(json!({"ev": "qlaws", "ty": "i8", "lane": lane, "bexp": -1, "qs": specs.into_iter().map(|x| x.1).collect::<Vec<_>>(),
                                  "perm": perm, "relabel": distinct, "stride": *rng.pick(&[1, 2, -1]), "fb": fb, "nomid": true}));
            }
            _ if params.get("deep").map(|s| s == "1").unwrap_or(false) => {
                // a run of 70..260 equal values with a few others around it: selection recurses as deep as the run is long
                // whatever the pivots; sparse q grid around the two ends of the run
                let run = rng.range(70, 260);
                let below = rng.range(0, 3);
                let above = rng.range(1, 8);
                let mut lane: Vec<i64> = Vec::new();
                for k in 0..below { lane.push(1 + k); }
                for _ in 0..run { lane.push(below + 1); }
                for k in 0..above { lane.push(below + 2 + if rng.chance(1, 3) { k / 2 } else { k }); }
                let n = lane.len();
                let m = (n - 1) as i64;
                let mut qs: Vec<(i64, i64, i64)> = vec![(0, 1, 0), (1, 1, 0)];
                for k in [0, below - 1, below, below + run - 2, below + run - 1, below + run, below + run + 1, m - 1, m] {
                    if k < 0 || k > m { continue; }
                    for &u in &[-1i64, 0, 1] { qs.push((k, m, u)); }
                    if k < m { qs.push((2 * k + 1, 2 * m, 0)); }
                }
                let mut specs: Vec<(f64, Value)> = qs.iter().map(|&(a, b, u)| { let s = json!({"a": a, "b": b, "u": u}); (make_q(&s), s) }).collect();
                specs.sort_by(|x, y| x.0.partial_cmp(&y.0).unwrap());
                let mut perm: Vec<usize> = (0..n).collect();
                for k in (1..n).rev() { let j = rng.below(k as u64 + 1) as usize; perm.swap(k, j); }
                if rng.chance(1, 2) { lane = perm.iter().map(|&k| lane[k]).collect(); }
                let mut distinct = lane.clone(); distinct.sort(); distinct.dedup();
                let relabel: Vec<i64> = distinct.iter().enumerate().map(|(r, &v)| v + r as i64).collect();
                let ty = *rng.pick(&["i64", "n64", "i8", "u8"]);
                let nanpos: Vec<i64> = (0..rng.range(1, 3)).map(|_| rng.range(0, n as i64)).collect();
                let mut c = json!({"ev": "qlaws", "ty": ty, "lane": lane, "bexp": -1, "qs": specs.into_iter().map(|x| x.1).collect::<Vec<_>>(),
                                  "perm": perm, "relabel": relabel, "stride": *rng.pick(&[1, 1, 2, -1]), "fb": fb});
                if ty == "n64" { c["nanpos"] = json!(nanpos); }
                cases.push(c);
            }
            _ => {
                let n = rng.range(1, maxn + 2) as usize;
                let (mut lane, mut bexp) = random_lane_vals(&mut rng, n, ty, "linear");
                // beyond 2^53 Linear goes through f64 and only its exact points (integral positions) are lawful
                if (ty == "i64" || ty == "u64") && rng.chance(1, 3) { bexp = if ty == "i64" { *rng.pick(&[54, 60, 62]) } else { *rng.pick(&[54, 62, 63]) }; }
                if matches!(ty, "i8" | "i16" | "i32" | "i64") {
                    let mx: i64 = match ty { "i8" => 127, "i16" => 32767, _ => i64::MAX };
                    while lane.iter().max().unwrap() - lane.iter().min().unwrap() > mx { for v in lane.iter_mut() { *v /= 2; } }
                }
                // dense ascending q grid around every k/(n-1) and every half-way point
                let mut qs: Vec<(i64, i64, i64)> = vec![(0, 1, 0), (1, 1, 0)];
                if n >= 2 {
                    let m = (n - 1) as i64;
                    for k in 0..=m { for &u in &[-1000i64, -4, -1, 0, 1, 4, 1000] { qs.push((k, m, u)); } }
                    for k in 0..m { for &u in &[-1, 0, 1] { qs.push((2 * k + 1, 2 * m, u)); } }
                }
                for _ in 0..4 { let b = *rng.pick(DENS); qs.push((rng.range(0, b), b, 0)); }
                let mut specs: Vec<(f64, Value)> = qs.iter().map(|&(a, b, u)| { let s = json!({"a": a, "b": b, "u": u}); (make_q(&s), s) }).collect();
                specs.sort_by(|x, y| x.0.partial_cmp(&y.0).unwrap());
                let mut perm: Vec<usize> = (0..n).collect();
                for k in (1..n).rev() { let j = rng.below(k as u64 + 1) as usize; perm.swap(k, j); }
                let mut distinct = lane.clone(); distinct.sort(); distinct.dedup();
                // strictly increasing relabelling inside the type's range: shift and stretch
                let mut relabel: Vec<i64> = Vec::new();
                let mut cur = distinct[0] - rng.range(0, 2);
                for (r, _) in distinct.iter().enumerate() { if r > 0 { cur += 1 + rng.range(0, 1); } relabel.push(cur); }
                let ok = match ty { "i8" => relabel.iter().all(|&v| (-128..=127).contains(&v)), "u8" => relabel.iter().all(|&v| (0..=255).contains(&v)),
                                    "u64" => bexp >= 0 || relabel.iter().all(|&v| v >= 0), _ => true };
                let relabel = if ok { relabel } else { distinct.clone() };
                let nanpos: Vec<i64> = (0..rng.range(1, 4)).map(|_| rng.range(0, n as i64)).collect();
                let mut c = json!({"ev": "qlaws", "ty": ty, "lane": lane, "bexp": bexp, "qs": specs.into_iter().map(|x| x.1).collect::<Vec<_>>(),
                                  "perm": perm, "relabel": relabel, "stride": *rng.pick(&[1, 1, 2, -1]), "fb": fb});
                if ty == "n64" { c["nanpos"] = json!(nanpos); }
                cases.push(c);
            }
        }
    }
    cases
}
