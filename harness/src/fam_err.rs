//! Family `err`: every fallible routine on every row of the error decision table (C17).
use crate::util::*;
use crate::Params;
use ndarray::prelude::*;
use ndarray_stats::errors::{EmptyInput, MinMaxError, MultiInputError, QuantileError};
use ndarray_stats::histogram::strategies::{Auto, BinsBuildingStrategy, FreedmanDiaconis, Rice, Sqrt, Sturges};
use ndarray_stats::interpolate::{Linear, Lower};
use ndarray_stats::{CorrelationExt, DeviationExt, EntropyExt, Quantile1dExt, QuantileExt, SummaryStatisticsExt};
use noisy_float::types::{n64, N64};
use serde_json::{json, Value};

fn shape_of(v: &Value) -> Vec<usize> { jints(v).into_iter().map(|x| x as usize).collect() }

fn arr(shape: &[usize], forder: bool, seedv: f64) -> ArrayD<f64> {
    let n: usize = shape.iter().product();
    let data: Vec<f64> = (0..n).map(|k| seedv + 0.5 * (k % 5) as f64).collect();
    Lay::plain(shape, forder).build(&data, |_| 0.0)
}

fn multi(r: Result<(), MultiInputError>) -> Value {
    match r {
        Ok(()) => json!({"out": "ok", "first": [], "second": [], "badq": 0}),
        Err(MultiInputError::EmptyInput) => json!({"out": "EmptyInput", "first": [], "second": [], "badq": 0}),
        Err(MultiInputError::ShapeMismatch(s)) => json!({"out": "ShapeMismatch", "first": s.first_shape, "second": s.second_shape, "badq": 0}),
    }
}
fn single(r: Result<(), EmptyInput>) -> Value {
    json!({"out": if r.is_ok() {"ok"} else {"EmptyInput"}, "first": [], "second": [], "badq": 0})
}
fn minmax(r: Result<(), MinMaxError>) -> Value {
    json!({"out": match r { Ok(()) => "ok", Err(MinMaxError::EmptyInput) => "EmptyInput", Err(MinMaxError::UndefinedOrder) => "UndefinedOrder" }, "first": [], "second": [], "badq": 0})
}
fn panicked() -> Value { json!({"out": "panic", "first": [], "second": [], "badq": 0}) }

fn emit(out: &mut Vec<Value>, case: &Value, routine: &str, order: &str, res: Result<Value, ()>, extra: Option<(&str, Value)>) {
    let mut o = case.as_object().unwrap().clone();
    o.insert("ev".into(), json!("err"));
    o.insert("routine".into(), json!(routine));
    o.insert("order".into(), json!(order));
    o.insert("empty".into(), json!(jints(&case["s1"]).iter().any(|&d| d == 0)));
    let r = res.unwrap_or_else(|_| panicked());
    for (k, v) in r.as_object().unwrap() { o.insert(k.clone(), v.clone()); }
    if let Some((k, v)) = extra { o.insert(k.to_string(), v); }
    out.push(Value::Object(o));
}

fn strat_out<B: BinsBuildingStrategy<Elem = N64>>(a: &Array1<N64>) -> Value {
    match B::from_array(a) { Err(e) if e.is_empty_input() => json!({"out": "EmptyInput", "first": [], "second": [], "badq": 0}),
                             _ => json!({"out": "ok", "first": [], "second": [], "badq": 0}) }
}

pub fn run(case: &Value, _params: &Params, out: &mut Vec<Value>) {
    let class = jstr(case, "class", "");
    let s1 = shape_of(&case["s1"]);
    for forder in [false, true] {
        let order = if forder { "F" } else { "C" };
        let a = arr(&s1, forder, 1.5);
        match class {
            "single" => {
                macro_rules! one { ($name:expr, $e:expr, $wrap:ident) => { emit(out, case, $name, order, guarded(|| $wrap($e.map(|_| ()))), None); }; }
                one!("mean", SummaryStatisticsExt::mean(&a), single);
                one!("harmonic_mean", a.harmonic_mean(), single);
                one!("geometric_mean", a.geometric_mean(), single);
                one!("kurtosis", a.kurtosis(), single);
                one!("skewness", a.skewness(), single);
                one!("central_moment", a.central_moment(3), single);
                one!("central_moments", a.central_moments(3), single);
                one!("entropy", a.entropy(), single);
                one!("min", a.min(), minmax);
                one!("max", a.max(), minmax);
                one!("argmin", a.argmin(), minmax);
                one!("argmax", a.argmax(), minmax);
                one!("argmin_skipnan", a.argmin_skipnan(), single);
                one!("argmax_skipnan", a.argmax_skipnan(), single);
                let ai = a.mapv(|x| x as i32);
                one!("mean_i32", SummaryStatisticsExt::mean(&ai), single);
                if s1.len() == 2 {
                    let a2 = a.clone().into_dimensionality::<Ix2>().unwrap();
                    one!("pearson_correlation", a2.pearson_correlation(), single);
                    one!("cov", a2.cov(0.0), single);
                }
                if s1.len() == 1 {
                    let an: Array1<N64> = a.iter().map(|&x| n64(x)).collect();
                    emit(out, case, "Sqrt::from_array", order, guarded(|| strat_out::<Sqrt<N64>>(&an)), None);
                    emit(out, case, "Rice::from_array", order, guarded(|| strat_out::<Rice<N64>>(&an)), None);
                    emit(out, case, "Sturges::from_array", order, guarded(|| strat_out::<Sturges<N64>>(&an)), None);
                    emit(out, case, "FreedmanDiaconis::from_array", order, guarded(|| strat_out::<FreedmanDiaconis<N64>>(&an)), None);
                    emit(out, case, "Auto::from_array", order, guarded(|| strat_out::<Auto<N64>>(&an)), None);
                }
            }
            "pair" | "sum_pair" => {
                let s2 = shape_of(&case["s2"]);
                // the second operand in the other memory order
                let b = arr(&s2, !forder, 2.0);
                macro_rules! two { ($name:expr, $e:expr) => { emit(out, case, $name, order, guarded(|| multi($e.map(|_| ()))), None); }; }
                if class == "sum_pair" {
                    let r = guarded(|| a.weighted_sum(&b));
                    let zero = matches!(&r, Ok(Ok(v)) if *v == 0.0);
                    emit(out, case, "weighted_sum", order, r.map(|x| multi(x.map(|_| ()))), Some(("zero", json!(zero))));
                } else {
                    two!("weighted_mean", a.weighted_mean(&b));
                    two!("weighted_var", a.weighted_var(&b, 0.0));
                    two!("weighted_std", a.weighted_std(&b, 0.0));
                    two!("count_eq", a.count_eq(&b));
                    two!("count_neq", a.count_neq(&b));
                    two!("sq_l2_dist", a.sq_l2_dist(&b));
                    two!("l2_dist", a.l2_dist(&b));
                    two!("l1_dist", a.l1_dist(&b));
                    two!("linf_dist", a.linf_dist(&b));
                    two!("mean_abs_err", a.mean_abs_err(&b));
                    two!("mean_sq_err", a.mean_sq_err(&b));
                    two!("root_mean_sq_err", a.root_mean_sq_err(&b));
                    two!("peak_signal_to_noise_ratio", a.peak_signal_to_noise_ratio(&b, 10.0));
                    two!("kl_divergence", a.kl_divergence(&b));
                    two!("cross_entropy", a.cross_entropy(&b));
                    let (ai, bi) = (a.mapv(|x| x as i64), b.mapv(|x| x as i64));
                    two!("sq_l2_dist_i64", ai.sq_l2_dist(&bi));
                    two!("count_eq_i64", ai.count_eq(&bi));
                }
            }
            "axisw" | "sum_axisw" => {
                let axis = jint(case, "axis") as usize;
                let wlen = jint(case, "wlen") as usize;
                let w: Array1<f64> = (0..wlen).map(|k| 1.0 + k as f64).collect();
                macro_rules! ax { ($name:expr, $e:expr) => { emit(out, case, $name, order, guarded(|| multi($e.map(|_| ()))), None); }; }
                if class == "sum_axisw" {
                    let r = guarded(|| a.weighted_sum_axis(Axis(axis), &w));
                    let zero = matches!(&r, Ok(Ok(v)) if v.iter().all(|&x| x == 0.0));
                    emit(out, case, "weighted_sum_axis", order, r.map(|x| multi(x.map(|_| ()))), Some(("zero", json!(zero))));
                } else {
                    ax!("weighted_mean_axis", a.weighted_mean_axis(Axis(axis), &w));
                    ax!("weighted_var_axis", a.weighted_var_axis(Axis(axis), &w, 0.0));
                    ax!("weighted_std_axis", a.weighted_std_axis(Axis(axis), &w, 0.0));
                }
            }
            "quant" => {
                let axis = jint(case, "axis") as usize;
                let qv: Vec<bool> = case["qv"].as_array().map(|x| x.iter().map(|b| b.as_bool().unwrap()).collect()).unwrap_or_default();
                // the kinds of invalid q alternate, starting with q > 1 or q < 0 depending on the row
                // ... and include the values next to the two boundaries: -0.0 and the smallest subnormal are inside [0, 1],
                // 1 + 2^-52, the negative subnormal and the infinities are outside
                let salt = s1.iter().sum::<usize>() + 3 * axis + forder as usize;
                let bads = [1.5, -0.5, 1.0 + f64::EPSILON, -5e-324, f64::INFINITY, -2.0, f64::NEG_INFINITY, 7.0];
                let goods = [0.5, -0.0, 1.0, 0.0, 5e-324, 1.0 - f64::EPSILON / 2.0, 0.25];
                let qs: Vec<f64> = qv.iter().enumerate().map(|(k, &ok)| if ok { goods[(k + salt) % 7] } else { bads[(k + salt) % 8] }).collect();
                let qarr: Array1<N64> = qs.iter().map(|&q| n64(q)).collect();
                let an = a.mapv(n64);
                let qres = |r: Result<(), QuantileError>, qs: &[f64]| -> Value {
                    match r {
                        Ok(()) => json!({"out": "ok", "first": [], "second": [], "badq": 0}),
                        Err(QuantileError::EmptyInput) => json!({"out": "EmptyInput", "first": [], "second": [], "badq": 0}),
                        Err(QuantileError::InvalidQuantile(q)) => json!({"out": "InvalidQuantile", "first": [], "second": [],
                            "badq": qs.iter().position(|&x| x.to_bits() == q.raw().to_bits()).map(|p| p as i64 + 1).unwrap_or(-1)}),
                    }
                };
                // bulk forms see the whole list; single forms see only the first q
                let bulk_case = case.clone();
                emit(out, &bulk_case, "quantiles_axis_mut", order, guarded(|| qres(an.clone().quantiles_axis_mut(Axis(axis), &qarr, &Lower).map(|_| ()), &qs)), None);
                // the same request list as a reversed view of a buffer holding it back to front
                let qback: Array1<N64> = qs.iter().rev().map(|&q| n64(q)).collect();
                let qrev = qback.slice(ndarray::s![..;-1]);
                emit(out, &bulk_case, "quantiles_axis_mut_reversed_request_view", order, guarded(|| qres(an.clone().quantiles_axis_mut(Axis(axis), &qrev, &Lower).map(|_| ()), &qs)), None);
                if s1.len() == 1 {
                    let a1 = an.clone().into_dimensionality::<Ix1>().unwrap();
                    emit(out, &bulk_case, "quantiles_mut", order, guarded(|| qres(a1.clone().quantiles_mut(&qarr, &Linear).map(|_| ()), &qs)), None);
                }
                if !qs.is_empty() {
                    let mut c1 = case.clone();
                    c1.as_object_mut().unwrap().insert("qv".into(), json!([qv[0]]));
                    let q0 = [qs[0]];
                    emit(out, &c1, "quantile_axis_mut", order, guarded(|| qres(an.clone().quantile_axis_mut(Axis(axis), n64(qs[0]), &Lower).map(|_| ()), &q0)), None);
                    emit(out, &c1, "quantile_axis_skipnan_mut", order, guarded(|| qres(a.clone().quantile_axis_skipnan_mut(Axis(axis), n64(qs[0]), &Lower).map(|_| ()), &q0)), None);
                    // the same request on data without a single non-missing value: the answer to an invalid q does not depend on the data
                    let allnan = a.mapv(|_| f64::NAN);
                    emit(out, &c1, "quantile_axis_skipnan_mut_all_missing", order, guarded(|| qres(allnan.clone().quantile_axis_skipnan_mut(Axis(axis), n64(qs[0]), &Lower).map(|_| ()), &q0)), None);
                    if s1.len() == 1 {
                        let a1 = an.clone().into_dimensionality::<Ix1>().unwrap();
                        emit(out, &c1, "quantile_mut", order, guarded(|| qres(a1.clone().quantile_mut(n64(qs[0]), &Linear).map(|_| ()), &q0)), None);
                    }
                }
            }
            _ => panic!("unknown error class {class}"),
        }
    }
}

pub fn gen(seed: u64, count: usize, _tier: &str, _params: &Params) -> Vec<Value> {
    // random rows beyond the model's shape set (larger ranks, other extents)
    let mut rng = Rng(seed ^ 0x4552);
    let mut cases = Vec::new();
    for _ in 0..count {
        let nd = rng.range(1, 4) as usize;
        let s1: Vec<i64> = (0..nd).map(|_| if rng.chance(1, 6) { 0 } else { rng.range(1, 4) }).collect();
        match rng.below(6) {
            0 => cases.push(json!({"class": "single", "s1": s1})),
            1 | 2 => {
                let mut s2 = s1.clone();
                // ... including arguments of another rank (dynamic dimensions): a trailing / leading unit axis, a prefix of the shape
                match rng.below(7) { 0 => {}, 1 => { s2.reverse(); }, 2 => { let k = rng.below(nd as u64) as usize; s2[k] += 1; }, 3 => { let k = rng.below(nd as u64) as usize; s2[k] = 0; }
                                     4 => { s2.push(1); }, 5 => { s2.insert(0, 1); }, _ => { if s2.len() > 1 { s2.pop(); } else { s2.push(rng.range(1, 3)); } } }
                cases.push(json!({"class": if rng.chance(1, 4) { "sum_pair" } else { "pair" }, "s1": s1, "s2": s2}));
            }
            3 | 4 => {
                let axis = rng.below(nd as u64) as i64;
                let wlen = if rng.chance(1, 2) { s1[axis as usize] } else { rng.range(0, 5) };
                cases.push(json!({"class": if rng.chance(1, 4) { "sum_axisw" } else { "axisw" }, "s1": s1, "axis": axis, "wlen": wlen}));
            }
            _ => {
                let axis = rng.below(nd as u64) as i64;
                let m = rng.range(0, 4);
                let qv: Vec<bool> = (0..m).map(|_| rng.chance(2, 3)).collect();
                cases.push(json!({"class": "quant", "s1": s1, "axis": axis, "qv": qv}));
            }
        }
    }
    cases
}
