//! Family `nan`: MaybeNan::remove_nan_mut on strided 1-D views and on the lanes of n-D
//! arrays (through map_axis_skipnan_mut), for every element type implementing MaybeNan.
use crate::util::*;
use crate::Params;
use ndarray::prelude::*;
use ndarray_stats::{MaybeNan, MaybeNanExt};
use noisy_float::types::{n32, n64, N32, N64};
use serde_json::{json, Value};

pub trait Elem: MaybeNan + Clone + 'static {
    const NAME: &'static str;
    /// id 0 is the missing value; any other id a distinct non-missing value.
    fn from_id(id: i64) -> Self;
    fn to_id(&self) -> i64;
    fn nn_to_id(x: &Self::NotNan) -> i64;
    /// from_not_nan applied to a copy of a typed reference
    fn nn_back(x: &Self::NotNan) -> Self;
}

macro_rules! elem_float {
    ($t:ty, $name:expr) => {
        impl Elem for $t {
            const NAME: &'static str = $name;
            // identities 2 and 5 are the infinities (valid, non-missing values at the extremes of the type)
            fn from_id(id: i64) -> Self { if id == 0 { <$t as AnyNan>::any_nan() } else if id == 2 { <$t>::INFINITY } else if id == 5 { <$t>::NEG_INFINITY } else { id as $t } }
            fn to_id(&self) -> i64 { if <$t>::is_nan(*self) { 0 } else if *self == <$t>::INFINITY { 2 } else if *self == <$t>::NEG_INFINITY { 5 } else { *self as i64 } }
            fn nn_to_id(x: &Self::NotNan) -> i64 { let v = x.raw(); if <$t>::is_nan(v) { -99 } else if v == <$t>::INFINITY { 2 } else if v == <$t>::NEG_INFINITY { 5 } else { v as i64 } }
            fn nn_back(x: &Self::NotNan) -> Self { <$t as MaybeNan>::from_not_nan(*x) }
        }
    };
}
elem_float!(f32, "f32");
elem_float!(f64, "f64");

macro_rules! elem_opt_int {
    ($t:ty, $name:expr) => {
        impl Elem for Option<$t> {
            const NAME: &'static str = $name;
            fn from_id(id: i64) -> Self { if id == 0 { None } else { Some(id as $t) } }
            fn to_id(&self) -> i64 { match self { None => 0, Some(v) => *v as i64 } }
            fn nn_to_id(x: &Self::NotNan) -> i64 { x.clone().unwrap() as i64 }
            fn nn_back(x: &Self::NotNan) -> Self { <Option<$t> as MaybeNan>::from_not_nan(x.clone()) }
        }
    };
}
elem_opt_int!(u8, "opt_u8");
elem_opt_int!(u16, "opt_u16");
elem_opt_int!(u32, "opt_u32");
elem_opt_int!(u64, "opt_u64");
elem_opt_int!(u128, "opt_u128");
elem_opt_int!(i8, "opt_i8");
elem_opt_int!(i16, "opt_i16");
elem_opt_int!(i32, "opt_i32");
elem_opt_int!(i64, "opt_i64");
elem_opt_int!(i128, "opt_i128");

impl Elem for Option<N32> {
    const NAME: &'static str = "opt_n32";
    fn from_id(id: i64) -> Self { if id == 0 { None } else { Some(n32(id as f32)) } }
    fn to_id(&self) -> i64 { match self { None => 0, Some(v) => v.raw() as i64 } }
    fn nn_to_id(x: &Self::NotNan) -> i64 { x.clone().unwrap().raw() as i64 }
    fn nn_back(x: &Self::NotNan) -> Self { <Option<N32> as MaybeNan>::from_not_nan(x.clone()) }
}
impl Elem for Option<N64> {
    const NAME: &'static str = "opt_n64";
    fn from_id(id: i64) -> Self { if id == 0 { None } else { Some(n64(id as f64)) } }
    fn to_id(&self) -> i64 { match self { None => 0, Some(v) => v.raw() as i64 } }
    fn nn_to_id(x: &Self::NotNan) -> i64 { x.clone().unwrap().raw() as i64 }
    fn nn_back(x: &Self::NotNan) -> Self { <Option<N64> as MaybeNan>::from_not_nan(x.clone()) }
}

pub const ALL_TYPES: &[&str] = &["f32", "f64", "opt_u8", "opt_u16", "opt_u32", "opt_u64", "opt_u128", "opt_i8", "opt_i16",
    "opt_i32", "opt_i64", "opt_i128", "opt_n32", "opt_n64"];

#[macro_export]
macro_rules! with_elem {
    ($name:expr, $f:ident, $($arg:expr),*) => {
        match $name {
            "f32" => $f::<f32>($($arg),*),
            "f64" => $f::<f64>($($arg),*),
            "opt_u8" => $f::<Option<u8>>($($arg),*),
            "opt_u16" => $f::<Option<u16>>($($arg),*),
            "opt_u32" => $f::<Option<u32>>($($arg),*),
            "opt_u64" => $f::<Option<u64>>($($arg),*),
            "opt_u128" => $f::<Option<u128>>($($arg),*),
            "opt_i8" => $f::<Option<i8>>($($arg),*),
            "opt_i16" => $f::<Option<i16>>($($arg),*),
            "opt_i32" => $f::<Option<i32>>($($arg),*),
            "opt_i64" => $f::<Option<i64>>($($arg),*),
            "opt_i128" => $f::<Option<i128>>($($arg),*),
            "opt_n32" => $f::<Option<noisy_float::types::N32>>($($arg),*),
            "opt_n64" => $f::<Option<noisy_float::types::N64>>($($arg),*),
            other => panic!("unknown element type {other}"),
        }
    };
}

/// Every cell of the parent buffer needs its own identity in the element type (8-bit types hold few).
fn id_space_check<T: Elem>(cells: usize) {
    if T::from_id(cells as i64).to_id() != cells as i64 {
        eprintln!("case needs {} distinct identities, more than {} can hold: generator error", cells, T::NAME);
        std::process::exit(2);
    }
}

fn view1_json<T>(base: *const T, v: &ArrayViewMut1<'_, T>) -> Value {
    view1_geom(base, v.as_ptr(), v.len(), v.strides()[0])
}

fn ids<T: Elem>(v: &[T]) -> Vec<i64> {
    v.iter().map(|x| x.to_id()).collect()
}

fn types_of(case: &Value, params: &Params) -> Vec<String> {
    if let Some(t) = case.get("ty").and_then(|x| x.as_str()) {
        return vec![t.to_string()];
    }
    match params.get("types").map(|s| s.as_str()) {
        Some("all") | None => ALL_TYPES.iter().map(|s| s.to_string()).collect(),
        Some(s) => s.split('/').map(|x| x.to_string()).collect(),
    }
}

/// remove_nan_mut on a strided 1-D view, called twice (determinism / idempotence).
fn remove_nan_1d<T: Elem>(case: &Value, out: &mut Vec<Value>) {
    let lane_ids = jints(&case["lane"]);
    let stride = jint(case, "stride") as isize;
    let off = jint(case, "off") as usize;
    let lane: Vec<T> = lane_ids.iter().map(|&k| T::from_id(if k == 0 { 0 } else { 1 })).collect();
    // distinct identities: cell k holds id k+1 unless missing
    let mut st = Strided::new(&lane, stride, off, |k| T::from_id(k as i64 + 1));
    id_space_check::<T>(st.parent.len());
    for t in 0..st.n {
        let a = st.addr(t);
        if lane_ids[t] != 0 {
            st.parent[a] = T::from_id(a as i64 + 1);
        }
    }
    let base = st.parent.as_ptr();
    let vin = { let v = st.view_mut(); view1_json(base, &v) };
    let mem0 = ids(st.parent.as_slice().unwrap());
    // the typed-reference accessors on every cell of the buffer: the library's is_nan, try_as_not_nan (identity of the value
    // handed out, 0 for none) and the round trip through from_not_nan
    let probe = guarded(|| {
        let cells = st.parent.as_slice().unwrap();
        let isn: Vec<bool> = cells.iter().map(|x| MaybeNan::is_nan(x)).collect();
        let tnn: Vec<i64> = cells.iter().map(|x| match x.try_as_not_nan() { Some(v) => T::nn_to_id(v), None => 0 }).collect();
        let back: Vec<i64> = cells.iter().map(|x| match x.try_as_not_nan() { Some(v) => T::nn_back(v).to_id(), None => 0 }).collect();
        (isn, tnn, back)
    });
    let (isn, tnn, back) = probe.unwrap_or((vec![], vec![], vec![]));
    let r1 = guarded(|| { let v = T::remove_nan_mut(st.view_mut());
        view1_geom(base, v.as_ptr() as *const T, v.len(), v.strides()[0]) });
    let mem1 = ids(st.parent.as_slice().unwrap());
    let r2 = guarded(|| { let v = T::remove_nan_mut(st.view_mut());
        view1_geom(base, v.as_ptr() as *const T, v.len(), v.strides()[0]) });
    let mem2 = ids(st.parent.as_slice().unwrap());
    let none = json!({"ptr": 0, "len": 0, "stride": 0});
    out.push(json!({"ev": "remove_nan", "ty": T::NAME, "kind": if T::NAME.starts_with("opt") {"option"} else {"float"},
        "out": if r1.is_ok() && r2.is_ok() {"ok"} else {"panic"},
        "isnan": isn, "tnn": tnn, "back": back,
        "mem0": mem0, "vin": vin, "mem1": mem1, "vout": r1.unwrap_or(none.clone()), "mem2": mem2, "vout2": r2.unwrap_or(none)}));
}

/// remove_nan_mut on every lane of an n-D view along `axis`, through map_axis_skipnan_mut.
fn remove_nan_nd<T: Elem>(case: &Value, out: &mut Vec<Value>) {
    let lay = Lay::from_json(&case["lay"]);
    let axis = jint(case, "axis") as usize;
    let data_ids = jints(&case["data"]);
    let data: Vec<T> = data_ids.iter().map(|&k| T::from_id(if k == 0 { 0 } else { 1 })).collect();
    let mut parent = lay.build(&data, |k| T::from_id(k as i64 + 1));
    id_space_check::<T>(parent.len());
    let base = parent.as_ptr();
    // distinct identities for non-missing cells of the view
    {
        let mut v = lay.view_mut(&mut parent);
        let sz = std::mem::size_of::<T>() as isize;
        for x in v.iter_mut() {
            if x.to_id() != 0 {
                let a = (x as *const T as isize - base as isize) / sz;
                *x = T::from_id(a as i64 + 1);
            }
        }
    }
    let g = { let v = lay.view(&parent); geom(base, &v) };
    let mem0 = ids(&mem_of(&parent));
    let mut call = |parent: &mut ArrayD<T>| {
        guarded(|| {
            let mut v = lay.view_mut(parent);
            let res = v.map_axis_skipnan_mut(Axis(axis), |lane| {
                view1_geom(base, lane.as_ptr() as *const T, lane.len(), lane.strides()[0])
            });
            res.iter().cloned().collect::<Vec<_>>()
        })
    };
    let r1 = call(&mut parent);
    let mem1 = ids(&mem_of(&parent));
    let r2 = call(&mut parent);
    let mem2 = ids(&mem_of(&parent));
    out.push(json!({"ev": "remove_nan_nd", "ty": T::NAME, "kind": if T::NAME.starts_with("opt") {"option"} else {"float"},
        "lay": lay.to_json(), "axis": axis, "g": g,
        "out": if r1.is_ok() && r2.is_ok() {"ok"} else {"panic"},
        "mem0": mem0, "mem1": mem1, "outs": r1.unwrap_or_default(), "mem2": mem2, "outs2": r2.unwrap_or_default()}));
}

pub fn run(case: &Value, params: &Params, out: &mut Vec<Value>) {
    let ev = jstr(case, "ev", "");
    for ty in types_of(case, params) {
        match ev {
            "remove_nan" => with_elem!(ty.as_str(), remove_nan_1d, case, out),
            "remove_nan_nd" => with_elem!(ty.as_str(), remove_nan_nd, case, out),
            _ => panic!("unknown nan event {ev}"),
        }
    }
}

pub fn gen(seed: u64, count: usize, tier: &str, params: &Params) -> Vec<Value> {
    let mut rng = Rng(seed ^ 0x4e41);
    let kinds: Vec<&str> = params.get("kinds").map(|s| s.split('/').collect()).unwrap_or_else(|| vec!["remove_nan", "remove_nan_nd"]);
    let maxlen = if tier == "thorough" { 30 } else { 16 };
    let mut cases = Vec::new();
    for _ in 0..count {
        let ty = *rng.pick(ALL_TYPES);
        let density = rng.below(5);
        let mut miss = |rng: &mut Rng| -> i64 {
            match density { 0 => 1, 1 => 0, 2 => (rng.below(4) != 0) as i64, 3 => (rng.below(4) == 0) as i64, _ => rng.below(2) as i64 }
        };
        match *rng.pick(&kinds) {
            "remove_nan" if rng.chance(1, 6) => {
                // long runs of missing / present values (block-wise scans have their corner cases at run lengths like 16 or 32)
                let mut lane: Vec<i64> = Vec::new();
                let segs = rng.range(1, 4);
                let mut present = rng.chance(1, 2);
                for _ in 0..segs { let len = if present { rng.range(1, 3) } else { *rng.pick(&[15i64, 16, 17, 31, 32, 33, 5]) }; for _ in 0..len { lane.push(present as i64); } present = !present; }
                if rng.chance(1, 2) { lane.push(1); }
                let stride = *rng.pick(&[1i64, 1, 2, -1, -2]);
                let cells = lane.len() as i64 * stride.abs() + 6;
                let ty = if cells > 120 && (ty == "opt_u8" || ty == "opt_i8") { "opt_i16" } else { ty };
                cases.push(json!({"ev": "remove_nan", "ty": ty, "lane": lane, "stride": stride, "off": rng.below(3)}));
            }
            "remove_nan" if (ty == "f32" || ty == "f64") && rng.chance(1, 4) => {
                // the only kept value of the lane is -inf (the cell at address 4 holds identity 5 = NEG_INFINITY), or +inf (address 1)
                let off = rng.below(3) as i64;
                let n = rng.range(5, 9);
                let target = if rng.chance(1, 2) { 4 } else { 1 };
                let lane: Vec<i64> = (0..n).map(|t| if off + 2 + t == target + 2 { 1 } else { 0 }).collect();
                cases.push(json!({"ev": "remove_nan", "ty": ty, "lane": lane, "stride": 1, "off": off}));
            }
            "remove_nan" if rng.chance(1, 25) => {
                // lanes beyond 256 elements on the narrow element types (in-block offsets kept in a byte would wrap there)
                let ty = *rng.pick(&["f32", "opt_u16", "opt_i16", "f32", "opt_i32"]);
                let n = rng.range(257, 600);
                let lane: Vec<i64> = (0..n).map(|_| (rng.below(8) != 0) as i64).collect();
                cases.push(json!({"ev": "remove_nan", "ty": ty, "lane": lane, "stride": *rng.pick(&[1i64, 1, 2, -1]), "off": rng.below(3)}));
            }
            "remove_nan" if rng.chance(1, 8) => {
                // long lanes (33..130) whose missing values sit only in the last few positions (block-wise scans skip tails)
                let n = rng.range(33, 130);
                let tail = rng.range(1, 6);
                let lane: Vec<i64> = (0..n).map(|k| if k >= n - tail && rng.chance(2, 3) { 0 } else { 1 }).collect();
                let stride = *rng.pick(&[1i64, 1, 2, -1]);
                let ty = if ty == "opt_u8" || ty == "opt_i8" { "opt_i16" } else { ty };
                cases.push(json!({"ev": "remove_nan", "ty": ty, "lane": lane, "stride": stride, "off": rng.below(3)}));
            }
            "remove_nan" => {
                let n = rng.range(0, maxlen);
                let lane: Vec<i64> = (0..n).map(|_| miss(&mut rng)).collect();
                let stride = *rng.pick(&[1i64, 2, 3, 4, -1, -2, -3, -4]);
                cases.push(json!({"ev": "remove_nan", "ty": ty, "lane": lane, "stride": stride, "off": rng.below(3)}));
            }
            _ => {
                let nd = rng.range(1, 3) as usize;
                let shape: Vec<usize> = (0..nd).map(|_| rng.below(4) as usize + (rng.below(4) != 0) as usize).collect();
                let fancy = rng.chance(2, 3);
                let lay = random_lay(&mut rng, &shape, fancy);
                let n: usize = shape.iter().product();
                let data: Vec<i64> = (0..n).map(|_| miss(&mut rng)).collect();
                // 8-bit element types cannot give every cell of a large parent its own identity
                let cells: usize = lay.pshape.iter().product();
                let ty = if cells > 120 && (ty == "opt_u8" || ty == "opt_i8") { "opt_i16" } else { ty };
                cases.push(json!({"ev": "remove_nan_nd", "ty": ty, "lay": lay.to_json(), "axis": rng.below(nd as u64), "data": data}));
            }
        }
    }
    cases
}
