//! Family `sort`: partition_mut, get_from_sorted_mut, get_many_from_sorted_mut (src/sort.rs).
use crate::util::*;
use crate::Params;
use ndarray::prelude::*;
use ndarray_stats::verif_hooks::{self, Fallback};
use ndarray_stats::Sort1dExt;
use serde_json::{json, Value};

fn fallback(name: &str) -> Fallback {
    match name {
        "first" => Fallback::First,
        "last" => Fallback::Last,
        "middle" => Fallback::Middle,
        _ => Fallback::Drawn,
    }
}

fn strides(case: &Value, params: &Params) -> Vec<isize> {
    if let Some(s) = case.get("strides") {
        return jints(s).into_iter().map(|x| x as isize).collect();
    }
    params
        .get("strides")
        .map(|s| s.split('/').map(|x| x.parse().unwrap()).collect())
        .unwrap_or_else(|| vec![1])
}

/// An element whose order looks only at the key: Ord-equal elements are not identical.
#[derive(Clone, Debug)]
pub struct Keyed { pub key: i64, pub id: i64, pub poison: bool }
impl PartialEq for Keyed { fn eq(&self, o: &Self) -> bool { self.key == o.key } }
impl Eq for Keyed {}
impl PartialOrd for Keyed { fn partial_cmp(&self, o: &Self) -> Option<std::cmp::Ordering> { Some(self.cmp(o)) } }
impl Ord for Keyed { fn cmp(&self, o: &Self) -> std::cmp::Ordering { if self.poison || o.poison { panic!("comparison with a poisoned element") } self.key.cmp(&o.key) } }

/// An element wider than a cache line (88 bytes) ordered by its first field.
#[derive(Clone, Debug)]
pub struct Wide { pub key: i64, pub fill: [u64; 10] }
impl PartialEq for Wide { fn eq(&self, o: &Self) -> bool { self.key == o.key } }
impl Eq for Wide {}
impl PartialOrd for Wide { fn partial_cmp(&self, o: &Self) -> Option<std::cmp::Ordering> { Some(self.cmp(o)) } }
impl Ord for Wide { fn cmp(&self, o: &Self) -> std::cmp::Ordering { self.key.cmp(&o.key) } }

/// An element with drop glue (heap allocation) ordered by its content.
#[derive(Clone, Debug, PartialEq, Eq, PartialOrd, Ord)]
pub struct Boxed(pub Box<i64>);

pub trait SortElem: Ord + Clone { fn ident(&self) -> i64; fn pad(k: usize) -> Self; }
impl SortElem for i64 { fn ident(&self) -> i64 { 0 } fn pad(k: usize) -> Self { i64::MIN + 7 + k as i64 } }
impl SortElem for Wide { fn ident(&self) -> i64 { 0 } fn pad(k: usize) -> Self { Wide { key: i64::MIN + 7 + k as i64, fill: [k as u64; 10] } } }
impl SortElem for Boxed { fn ident(&self) -> i64 { 0 } fn pad(k: usize) -> Self { Boxed(Box::new(i64::MIN + 7 + k as i64)) } }
impl SortElem for Keyed { fn ident(&self) -> i64 { self.id } fn pad(k: usize) -> Self { Keyed { key: i64::MIN + 7 + k as i64, id: 900 + k as i64, poison: false } } }

/// A lane with ONE element whose comparisons panic (as `partial_cmp().expect()` wrappers do on NaN): whatever the routine
/// was doing when the comparison unwound, the lane must still hold every element exactly once and nothing outside the
/// view may have changed (identities, not values, are compared - no ordering is needed for that).
fn run_poison(case: &Value, out: &mut Vec<Value>) {
    let a = jints(&case["a"]);
    let pp = jint(case, "pp") as usize;
    let lane: Vec<Keyed> = a.iter().enumerate().map(|(p, &v)| Keyed { key: v, id: p as i64 + 1, poison: p == pp }).collect();
    let stride = jint(case, "stride") as isize;
    let mut st = Strided::new(&lane, stride, 2, |k| Keyed::pad(k));
    let pm0: Vec<i64> = st.parent.iter().map(|x| x.id).collect();
    let vin = json!({"ptr": if st.n == 0 { 0 } else { st.addr(0) }, "len": st.n, "stride": stride});
    let routine = jstr(case, "routine", "partition");
    let pos = jint(case, "pos") as usize;
    verif_hooks::set_script(vec![], fallback(jstr(case, "fb", "drawn")));
    let ok = match routine {
        "partition" => guarded(|| { st.view_mut().partition_mut(pos); }).is_ok(),
        "select" => guarded(|| { st.view_mut().get_from_sorted_mut(pos); }).is_ok(),
        _ => { let idx = Array1::from(vec![pos, pos / 2]); guarded(|| { st.view_mut().get_many_from_sorted_mut(&idx); }).is_ok() }
    };
    verif_hooks::take_log();
    let pm1: Vec<i64> = st.parent.iter().map(|x| x.id).collect();
    let idafter: Vec<i64> = st.lane().iter().map(|x| x.id).collect();
    out.push(json!({"ev": "poison", "routine": routine, "stride": stride, "pos": pos, "pp": pp, "a": a, "out": if ok {"ok"} else {"panic"},
        "ida": lane.iter().map(|x| x.id).collect::<Vec<_>>(), "idafter": idafter, "pm0": pm0, "pm1": pm1, "vin": vin}));
}

/// The routines on a lane of the library's own `NotNone<i32>` element type (what `Option<i32>::remove_nan_mut` hands to the
/// NaN-skipping quantile): ordering operators of that wrapper are part of the code under test.  Ranks are computed from the
/// wrapped integers, never through the wrapper's own comparisons.
fn run_notnone(case: &Value, out: &mut Vec<Value>) {
    use ndarray_stats::MaybeNan;
    let a = jints(&case["a"]);
    let ev = jstr(case, "ev", "");
    let stride = jint(&json!({"s": case["strides"][0]}), "s") as isize;
    let lane: Vec<Option<i32>> = a.iter().map(|&v| Some(v as i32)).collect();
    let mut st = Strided::new(&lane, stride, 2, |k| Some(-1000 - k as i32));
    let rm = rank_map(&a);
    let before = ranks_of(&rm, &a);
    let script: Vec<usize> = jints(&case["pv"]).into_iter().map(|x| x as usize).collect();
    let fb = fallback(jstr(case, "fb", "drawn"));
    let rk = |v: i32| rank_of(&rm, &(v as i64));
    let mut o = {
        let mut v = <Option<i32> as MaybeNan>::remove_nan_mut(st.view_mut());
        if v.len() != a.len() { panic!("harness: remove_nan_mut dropped a present value"); }
        match ev {
            "partition" => {
                let p = to_usize(jint(case, "p"));
                let r = guarded(|| v.partition_mut(p));
                json!({"ev": "partition", "stride": stride, "a": before, "p": from_usize(p), "out": if r.is_ok() {"ok"} else {"panic"}, "k": r.map(from_usize).unwrap_or(0)})
            }
            "select" => {
                let i = to_usize(jint(case, "i"));
                verif_hooks::set_script(script.clone(), fb);
                let r = guarded(|| v.get_from_sorted_mut(i));
                let log = verif_hooks::take_log();
                let pv: Vec<Value> = log.iter().map(|&(n, p)| json!([n, p])).collect();
                json!({"ev": "select", "stride": stride, "a": before, "i": from_usize(i), "out": if r.is_ok() {"ok"} else {"panic"}, "ret": r.map(|x| rk(*x)).unwrap_or(0), "pv": pv})
            }
            _ => {
                let idx: Vec<usize> = jints(&case["idx"]).into_iter().map(to_usize).collect();
                let idx_arr = Array1::from(idx.clone());
                verif_hooks::set_script(script.clone(), fb);
                let r = guarded(|| v.get_many_from_sorted_mut(&idx_arr));
                let log = verif_hooks::take_log();
                let pv: Vec<Value> = log.iter().map(|&(n, p)| json!([n, p])).collect();
                let (keys, vals): (Vec<i64>, Vec<i64>) = match &r { Ok(m) => m.iter().map(|(&k, x)| (from_usize(k), rk(**x))).unzip(), Err(()) => (vec![], vec![]) };
                json!({"ev": "bulk", "stride": stride, "a": before, "idx": idx.iter().map(|&x| from_usize(x)).collect::<Vec<_>>(),
                    "out": if r.is_ok() {"ok"} else {"panic"}, "keys": keys, "vals": vals, "pv": pv})
            }
        }.as_object().unwrap().clone()
    };
    let after: Vec<i64> = st.lane().iter().map(|x| match x { Some(v) => rk(*v), None => -7 }).collect();
    o.insert("after".into(), json!(after));
    o.insert("rep".into(), json!("notnone"));
    o.insert("other_ok".into(), json!(true));
    out.push(Value::Object(o));
}

pub fn run(case: &Value, params: &Params, out: &mut Vec<Value>) {
    if jstr(case, "ev", "") == "poison" { return run_poison(case, out); }
    if jstr(case, "rep", "") == "notnone" { return run_notnone(case, out); }
    let a = jints(&case["a"]);
    let k = a.iter().copied().max().unwrap_or(0);
    let mode = jstr(case, "vmap", "id");
    if case.get("keyed").and_then(|x| x.as_bool()).unwrap_or(false) {
        let lane: Vec<Keyed> = a.iter().enumerate().map(|(p, &v)| Keyed { key: vmap_i64(v, k, mode), id: p as i64 + 1, poison: false }).collect();
        run_t(case, params, lane, out);
    } else if case.get("boxed").and_then(|x| x.as_bool()).unwrap_or(false) {
        let lane: Vec<Boxed> = a.iter().map(|&v| Boxed(Box::new(vmap_i64(v, k, mode)))).collect();
        run_t(case, params, lane, out);
    } else if case.get("wide").and_then(|x| x.as_bool()).unwrap_or(false) {
        let lane: Vec<Wide> = a.iter().map(|&v| Wide { key: vmap_i64(v, k, mode), fill: [v as u64; 10] }).collect();
        run_t(case, params, lane, out);
    } else {
        let lane: Vec<i64> = a.iter().map(|&v| vmap_i64(v, k, mode)).collect();
        run_t(case, params, lane, out);
    }
}

/// One call of the routine named by the case on any mutable 1-D representation; everything but the array afterwards.
fn call_one<T: SortElem, S: ndarray::DataMut<Elem = T>>(case: &Value, arr: &mut ndarray::ArrayBase<S, ndarray::Ix1>, rm: &std::collections::BTreeMap<T, i64>, lane: &[T], stride: isize) -> serde_json::Map<String, Value> {
    let ev = jstr(case, "ev", "");
    let script: Vec<usize> = jints(&case["pv"]).into_iter().map(|x| x as usize).collect();
    let fb = fallback(jstr(case, "fb", "drawn"));
    let before = ranks_of(rm, lane);
    let v = match ev {
        "partition" => {
            let p = to_usize(jint(case, "p"));
            let r = guarded(|| arr.partition_mut(p));
            json!({"ev": "partition", "stride": stride, "a": before, "p": from_usize(p),
                "out": if r.is_ok() {"ok"} else {"panic"}, "k": r.map(from_usize).unwrap_or(0)})
        }
        "select" => {
            let i = to_usize(jint(case, "i"));
            verif_hooks::set_script(script.clone(), fb);
            let r = guarded(|| arr.get_from_sorted_mut(i));
            let log = verif_hooks::take_log();
            let pv: Vec<Value> = log.iter().map(|&(n, p)| json!([n, p])).collect();
            json!({"ev": "select", "stride": stride, "a": before, "i": from_usize(i),
                "out": if r.is_ok() {"ok"} else {"panic"}, "ret": r.map(|v| rank_of(rm, &v)).unwrap_or(0), "pv": pv})
        }
        "bulk" => {
            let idx: Vec<usize> = jints(&case["idx"]).into_iter().map(to_usize).collect();
            // the request list as an owned array, or as a reversed / stepped view of a larger buffer (same logical list)
            let idx_owned = Array1::from(idx.clone());
            let idx_rev_buf: Array1<usize> = idx.iter().rev().cloned().collect();
            let idx_step_buf: Array1<usize> = idx.iter().flat_map(|&x| [x, usize::MAX / 3]).collect();
            let idx_arr: ndarray::ArrayView1<usize> = match jstr(case, "idxlay", "owned") {
                "rev" => idx_rev_buf.slice(ndarray::s![..;-1]),
                "step" => idx_step_buf.slice(ndarray::s![..;2]),
                _ => idx_owned.view(),
            };
            verif_hooks::set_script(script.clone(), fb);
            let r = guarded(|| arr.get_many_from_sorted_mut(&idx_arr));
            let log = verif_hooks::take_log();
            let pv: Vec<Value> = log.iter().map(|&(n, p)| json!([n, p])).collect();
            let (keys, vals): (Vec<i64>, Vec<i64>) = match &r {
                Ok(m) => m.iter().map(|(&k, v)| (from_usize(k), rank_of(rm, v))).unzip(),
                Err(()) => (vec![], vec![]),
            };
            json!({"ev": "bulk", "stride": stride, "a": before, "idx": idx.iter().map(|&x| from_usize(x)).collect::<Vec<_>>(),
                "out": if r.is_ok() {"ok"} else {"panic"}, "keys": keys, "vals": vals, "pv": pv})
        }
        "bulkpair" => {
            // C18: the bulk form against the single form, index by index, on clones of the same input
            let idx: Vec<usize> = jints(&case["idx"]).into_iter().map(to_usize).collect();
            let idx_arr = Array1::from(idx.clone());
            verif_hooks::set_script(script.clone(), fb);
            let r = guarded(|| arr.get_many_from_sorted_mut(&idx_arr));
            verif_hooks::take_log();
            let (keys, vals): (Vec<i64>, Vec<i64>) = match &r {
                Ok(m) => m.iter().map(|(&k, v)| (from_usize(k), rank_of(rm, v))).unzip(),
                Err(()) => (vec![], vec![]),
            };
            let singles: Vec<Value> = idx.iter().map(|&i| {
                let mut st2 = Strided::new(lane, stride, 2, |k| T::pad(k));
                verif_hooks::set_script(vec![], Fallback::Drawn);
                let r2 = guarded(|| st2.view_mut().get_from_sorted_mut(i));
                verif_hooks::take_log();
                json!({"i": from_usize(i), "out": if r2.is_ok() {"ok"} else {"panic"}, "ret": r2.map(|v| rank_of(rm, &v)).unwrap_or(0)})
            }).collect();
            json!({"ev": "bulkpair", "stride": stride, "a": before, "idx": idx.iter().map(|&x| from_usize(x)).collect::<Vec<_>>(),
                "out": if r.is_ok() {"ok"} else {"panic"}, "keys": keys, "vals": vals, "singles": singles})
        }
        _ => panic!("unknown sort event {ev}"),
    };
    v.as_object().unwrap().clone()
}

fn run_t<T: SortElem>(case: &Value, params: &Params, lane: Vec<T>, out: &mut Vec<Value>) {
    let keyed = case.get("keyed").and_then(|x| x.as_bool()).unwrap_or(false);
    let rm = rank_map(&lane);
    let frame = params.get("frame").map(|s| s == "1").unwrap_or(false);
    let rep = jstr(case, "rep", "view");
    if rep != "view" {
        // copy-on-write representations that are NOT uniquely held at the time of the call: a second handle of a shared
        // ArcArray1, or a CowArray borrowing another array.  The call must behave as on an owned array and the other
        // handle / the borrowed array must keep its contents.
        let base = Array1::from(lane.clone());
        let (mut o, after, other): (serde_json::Map<String, Value>, Vec<T>, Vec<T>) = if rep == "arc" {
            let shared: ndarray::ArcArray1<T> = base.clone().into_shared();
            let mut mine = shared.clone();
            let o = call_one(case, &mut mine, &rm, &lane, 1);
            (o, mine.to_vec(), shared.to_vec())
        } else {
            let mut cow: ndarray::CowArray<'_, T, ndarray::Ix1> = ndarray::CowArray::from(base.view());
            let o = call_one(case, &mut cow, &rm, &lane, 1);
            let after = cow.to_vec();
            (o, after, base.to_vec())
        };
        o.insert("after".into(), json!(ranks_of(&rm, &after)));
        o.insert("rep".into(), json!(rep));
        // rank over identities too for keyed elements: the other handle is untouched cell by cell
        let same = other.len() == lane.len() && other.iter().zip(lane.iter()).all(|(x, y)| x == y && x.ident() == y.ident());
        o.insert("other_ok".into(), json!(same));
        if keyed {
            o.insert("ida".into(), json!(lane.iter().map(|x| rank_of(&rm, x) * 4096 + x.ident()).collect::<Vec<i64>>()));
            o.insert("idafter".into(), json!(after.iter().map(|x| rank_of(&rm, x) * 4096 + x.ident()).collect::<Vec<i64>>()));
        }
        out.push(Value::Object(o));
        return;
    }
    for stride in strides(case, params) {
        // pad cells hold distinct values below every lane value, so any write outside the view shows
        let mut st = Strided::new(&lane, stride, 2, |k| T::pad(k));
        let pm0: Vec<T> = st.parent.to_vec();
        let vin = json!({"ptr": if st.n == 0 { 0 } else { st.addr(0) }, "len": st.n, "stride": stride});
        let mut o = { let mut v = st.view_mut(); call_one(case, &mut v, &rm, &lane, stride) };
        if jstr(case, "ev", "") != "bulkpair" { o.insert("after".into(), json!(ranks_of(&rm, &st.lane()))); }
        o.insert("rep".into(), json!("view"));
        o.insert("other_ok".into(), json!(true));
        out.push(Value::Object(o));
        if frame {
            // parent buffer before/after in rank space (ranks over everything the buffer ever held)
            let pm1: Vec<T> = st.parent.to_vec();
            let mut all = pm0.clone();
            all.extend(pm1.iter().cloned());
            let prm = rank_map(&all);
            let o = out.last_mut().unwrap().as_object_mut().unwrap();
            o.insert("pm0".into(), json!(ranks_of(&prm, &pm0)));
            o.insert("pm1".into(), json!(ranks_of(&prm, &pm1)));
            o.insert("vin".into(), vin);
        }
        if keyed {
            // identities: Ord-equal elements are distinguishable, so a lost or duplicated element shows
            let ida: Vec<i64> = lane.iter().map(|x| rank_of(&rm, x) * 4096 + x.ident()).collect();
            let idafter: Vec<i64> = st.lane().iter().map(|x| rank_of(&rm, x) * 4096 + x.ident()).collect();
            let o = out.last_mut().unwrap().as_object_mut().unwrap();
            o.insert("ida".into(), json!(ida));
            o.insert("idafter".into(), json!(idafter));
        }
    }
}

/// An out-of-range position for a lane of length n: n, n+1, n+2, usize::MAX or usize::MAX - k (logged as BIG - k).
fn oor_pos(rng: &mut Rng, n: i64) -> i64 {
    match rng.below(6) { 0 | 1 => n, 2 => n + 1 + rng.range(0, 1), 3 => BIG, _ => BIG - 1 - rng.range(0, n + 1) }
}

/// Randomized / adversarial cases: longer lanes, heavy duplicates, type extremes,
/// real RNG pivots (recorded by the hook) and hostile pivot policies.
pub fn gen(seed: u64, count: usize, tier: &str, params: &Params) -> Vec<Value> {
    let mut rng = Rng(seed ^ 0x5057);
    let kinds: Vec<&str> = params.get("kinds").map(|s| s.split('/').collect()).unwrap_or_else(|| vec!["partition", "select", "bulk"]);
    let oor_den: u64 = params.get("oor_den").map(|s| s.parse().unwrap()).unwrap_or(8);
    let maxlen: i64 = if tier == "thorough" { 64 } else { 40 };
    let mut cases = Vec::new();
    for c in 0..count {
        let longlanes = params.get("long").map(|s| s == "1").unwrap_or(false);
        let blocks = params.get("long").map(|s| s == "2").unwrap_or(false);
        let verylong = params.get("long").map(|s| s == "3").unwrap_or(false);
        let n = if verylong { rng.range(300, 700) } else if blocks { *rng.pick(&[63i64, 64, 65, 127, 128, 128, 129, 191, 192, 192, 193, 255, 256, 256, 257]) } else if longlanes { rng.range(120, 200) } else if c % 17 == 0 { rng.range(0, 3) } else { rng.range(1, maxlen) };
        let n = if oor_den == 0 { n.max(1) } else { n };
        let distinct = match rng.below(4) {
            0 => 1 + rng.below(2) as i64,
            1 => 1 + rng.below(4) as i64,
            2 => n.max(1),
            _ => 1 + rng.below(n.max(1) as u64) as i64,
        };
        let mut a: Vec<i64> = (0..n).map(|_| rng.range(1, distinct)).collect();
        // a long run of one value with a few others around it: every partitioning round strips one copy of the run, so the
        // recursion goes as deep as the run is long whatever the pivots are
        let deep = params.get("deep").map(|s| s == "1").unwrap_or(false);
        if deep {
            let run = rng.range(70, 260);
            let below = rng.range(0, 3);
            let above = rng.range(1, 12);
            a = Vec::new();
            for k in 0..below { a.push(1 + k); }
            for _ in 0..run { a.push(below + 1); }
            for k in 0..above { a.push(below + 2 + if rng.chance(1, 3) { k / 2 } else { k }); }
            // relabel to a dense pattern
            let mut d = a.clone(); d.sort(); d.dedup();
            for v in a.iter_mut() { *v = d.binary_search(v).unwrap() as i64 + 1; }
            if rng.chance(1, 2) { for k in (1..a.len()).rev() { let j = rng.below(k as u64 + 1) as usize; a.swap(k, j); } }
        }
        let n = a.len() as i64;
        match rng.below(6) {
            0 => a.sort(),
            1 => {
                a.sort();
                a.reverse()
            }
            _ => {}
        }
        let fb = *rng.pick(&["drawn", "drawn", "first", "last", "middle"]);
        let vmap = *rng.pick(&["id", "ext"]);
        let keyed = rng.chance(1, 4);
        // now and then a stride so large that the lane's footprint exceeds any cache-minded threshold (a column of a wide matrix)
        let bigstride = n >= 24 && rng.chance(1, 10) && params.get("bigstride").map(|s| s != "0").unwrap_or(true);
        let strides = if bigstride { json!([*rng.pick(&[200, 331, -250, 512])]) } else { json!([*rng.pick(&[1, 1, 2, -1, -3, 3, -2])]) };
        // ... with the pivot element often already at its own sorted rank while the rest is out of place
        let mut rank_pos: i64 = -1;
        if bigstride && rng.chance(1, 2) {
            let x = rng.below(n as u64) as usize; let v = a[x];
            let p = a.iter().filter(|&&w| w < v).count();
            a.swap(x, p);
            rank_pos = p as i64;
        }
        let script: Vec<i64> = if rng.chance(1, 3) { (0..rng.below(8)).map(|_| rng.below(1000) as i64).collect() } else { vec![] };
        let oor = oor_den > 0 && rng.chance(1, oor_den);
        // representation: mostly mutable views; sometimes a shared ArcArray1 handle or a borrowing CowArray
        let rep = if params.get("reps").map(|s| s == "0").unwrap_or(false) { "view" } else { match rng.below(10) { 0 => "arc", 1 => "cow", 2 => "notnone", _ => "view" } };
        let n0 = cases.len();
        match *rng.pick(&kinds) {
            "poison" => {
                if n == 0 { continue; }
                let routine = *rng.pick(&["partition", "select", "bulk"]);
                cases.push(json!({"ev": "poison", "routine": routine, "a": a, "pp": rng.range(0, n - 1), "pos": rng.range(0, n - 1), "stride": *rng.pick(&[1, 2, -1, -3]), "fb": fb}));
            }
            "partition" => {
                let p = if oor || n == 0 { oor_pos(&mut rng, n) } else if rank_pos >= 0 { rank_pos } else { rng.range(0, n - 1) };
                cases.push(json!({"ev": "partition", "a": a, "p": p.min(BIG), "vmap": vmap, "strides": strides, "keyed": keyed}));
            }
            "select" => {
                let i = if oor || n == 0 { oor_pos(&mut rng, n) } else { rng.range(0, n - 1) };
                cases.push(json!({"ev": "select", "a": a, "i": i.min(BIG), "pv": script, "fb": fb, "vmap": vmap, "strides": strides, "keyed": keyed}));
            }
            kind => {
                // lanes beyond 256 elements: enough requests that some lie to the right of a pivot of rank >= 256
                let m = if verylong { 6 + rng.below(11) } else { rng.below(if tier == "thorough" { 33 } else { 9 }) };
                let mut idx: Vec<i64> = (0..m).map(|_| if n == 0 { 0 } else { rng.range(0, n - 1) }).collect();
                if deep {
                    // sparse requests at and just beyond the end of the run, unordered and with repeats
                    let last = n - 1;
                    let cnt = rng.range(1, 4);
                    idx = (0..cnt).map(|_| (last - rng.range(0, 13)).max(0)).collect();
                    if rng.chance(1, 2) { let d0 = idx[0]; idx.push(d0); }
                }
                if (oor || n == 0) && !idx.is_empty() {
                    let pos = rng.below(idx.len() as u64) as usize;
                    idx[pos] = oor_pos(&mut rng, n);
                }
                cases.push(json!({"ev": if kind == "bulkpair" { "bulkpair" } else { "bulk" }, "a": a, "idx": idx, "pv": script, "fb": fb, "vmap": vmap, "strides": strides, "keyed": keyed,
                                  "idxlay": *rng.pick(&["owned", "owned", "rev", "step"])}));
            }
        }
        if rep != "view" && cases.len() > n0 && cases[n0]["ev"] != "bulkpair" {
            // the pivot already in front is the path on which no checked mutable access happens before the loop
            if cases[n0]["ev"] == "partition" && n > 0 && rng.chance(1, 2) { cases[n0]["p"] = json!(0); }
            cases[n0]["rep"] = json!(rep);
            if rep == "notnone" { cases[n0]["vmap"] = json!("id"); cases[n0]["keyed"] = json!(false); }
        }
        // element types wider than a cache line
        if rep == "view" && cases.len() > n0 && !keyed && rng.chance(1, 8) { if rng.chance(1, 2) { cases[n0]["wide"] = json!(true); } else { cases[n0]["boxed"] = json!(true); }
        }
    }
    cases
}
