//! Family `misc`: the small public surface around the main routines - NotNone<T> as a transparent
//! wrapper (arithmetic, order, conversions), the MaybeNan conversions, and the error conversions.
use crate::util::*;
use crate::Params;
use ndarray_stats::errors::{EmptyInput, MinMaxError, MultiInputError, QuantileError, ShapeMismatch};
use ndarray_stats::histogram::errors::BinsBuildError;
use ndarray_stats::MaybeNan;
use num_traits::{FromPrimitive, ToPrimitive};
use serde_json::{json, Value};

type NN = <Option<i32> as MaybeNan>::NotNan;

fn nn(v: i64) -> NN { NN::new(v as i32) }

pub fn run(case: &Value, _params: &Params, out: &mut Vec<Value>) {
    match jstr(case, "ev", "") {
        "notnone" => {
            let (a, b) = (jint(case, "a"), jint(case, "b"));
            let (x, y) = (nn(a), nn(b));
            let op = |r: Result<NN, ()>| -> Value { match r { Ok(v) => json!({"ok": true, "v": if (*v as i64).abs() > (1 << 29) { 536870900 * (*v as i64).signum() } else { *v as i64 }}), Err(()) => json!({"ok": false, "v": 0}) } };
            let cmp = |o: std::cmp::Ordering| -> i64 { match o { std::cmp::Ordering::Less => -1, std::cmp::Ordering::Equal => 0, _ => 1 } };
            out.push(json!({"ev": "notnone", "a": a, "b": b,
                "add": op(guarded(|| x + y)), "sub": op(guarded(|| x - y)), "mul": op(guarded(|| x * y)),
                "div": op(guarded(|| x / y)), "rem": op(guarded(|| x % y)),
                "eq": x == y, "lt": x < y, "le": x <= y, "gt": x > y, "ge": x >= y, "cmp": cmp(x.cmp(&y)), "pcmp": x.partial_cmp(&y).map(cmp).unwrap_or(9),
                "deref": *x, "unwrap": x.unwrap(), "inner": x.into_inner().unwrap_or(-999), "map": *x.map(|t| t + 1),
                "to_i64": x.to_i64().unwrap_or(-999), "to_u8": x.to_u8().map(|t| t as i64).unwrap_or(-1), "to_f64x4": (x.to_f64().unwrap() * 4.0) as i64,
                "from_i64": NN::from_i64(a).map(|t| *t as i64).unwrap_or(-999), "from_f64": NN::from_f64(a as f64 + 0.75).map(|t| *t as i64).unwrap_or(-999),
                "try_new_some": NN::try_new(Some(a as i32)).is_some(), "try_new_none": NN::try_new(None).is_none(),
                "display": format!("{}", x) == format!("{}", a as i32)}));
        }
        "maybenan" => {
            let v = jint(case, "v"); // 0 = missing
            let o: Option<i32> = if v == 0 { None } else { Some(v as i32) };
            let f: f64 = if v == 0 { nan64() } else { v as f64 };
            let f_from_opt: i64 = { let r = f64::from_not_nan_opt(f.try_as_not_nan().cloned()); if f64::is_nan(r) { 0 } else { r as i64 } };
            let f_from_ref: i64 = { let r = *f64::from_not_nan_ref_opt(f.try_as_not_nan()); if f64::is_nan(r) { 0 } else { r as i64 } };
            let o_from_opt: i64 = Option::<i32>::from_not_nan_opt(if v == 0 { None } else { Some(NN::new(v as i32)) }).map(|t| t as i64).unwrap_or(0);
            out.push(json!({"ev": "maybenan", "v": v,
                "o_is_nan": o.is_nan(), "o_try": o.try_as_not_nan().map(|t| **t as i64).unwrap_or(0),
                "o_from": Option::<i32>::from_not_nan(NN::new(7)).unwrap_or(0),
                "o_from_opt": o_from_opt,
                "o_from_ref": Option::<i32>::from_not_nan_ref_opt(o.try_as_not_nan()).map(|t| t as i64).unwrap_or(0),
                "f_is_nan": MaybeNan::is_nan(&f), "f_try": f.try_as_not_nan().map(|t| t.raw() as i64).unwrap_or(0),
                "f_from_opt": f_from_opt, "f_from_ref": f_from_ref}));
        }
        "errconv" => {
            let m: MinMaxError = EmptyInput.into();
            let q: QuantileError = EmptyInput.into();
            let mi: MultiInputError = EmptyInput.into();
            let ms: MultiInputError = ShapeMismatch { first_shape: vec![1, 2], second_shape: vec![3] }.into();
            let b1: BinsBuildError = EmptyInput.into();
            let b2: BinsBuildError = MinMaxError::EmptyInput.into();
            let b3: BinsBuildError = MinMaxError::UndefinedOrder.into();
            out.push(json!({"ev": "errconv",
                "minmax_from_empty": m == MinMaxError::EmptyInput, "quantile_from_empty": q == QuantileError::EmptyInput,
                "multi_from_empty": mi.is_empty_input() && !mi.is_shape_mismatch(), "multi_from_shape": ms.is_shape_mismatch() && !ms.is_empty_input(),
                "bins_from_empty": b1.is_empty_input() && !b1.is_strategy(), "bins_from_minmax_empty": b2.is_empty_input(), "bins_from_undefined": b3.is_strategy() && !b3.is_empty_input(),
                "display_empty": format!("{}", EmptyInput) == "Empty input.",
                "display_shape": format!("{}", ShapeMismatch { first_shape: vec![1, 2], second_shape: vec![3] }) == "Array shapes do not match: [1, 2] and [3]."}));
        }
        e => panic!("unknown misc event {e}"),
    }
}

pub fn gen(seed: u64, count: usize, _tier: &str, _params: &Params) -> Vec<Value> {
    let mut rng = Rng(seed ^ 0x4d49);
    let mut cases = vec![json!({"ev": "errconv"})];
    for v in 0..6 { cases.push(json!({"ev": "maybenan", "v": v})); }
    for _ in 0..count {
        let ext = [(1i64 << 27) - 1, -(1i64 << 27), 0, 1, -1];
        let a = if rng.chance(1, 5) { *rng.pick(&ext) } else { rng.range(-50, 50) };
        let b = if rng.chance(1, 5) { *rng.pick(&ext) } else { rng.range(-50, 50) };
        cases.push(json!({"ev": "notnone", "a": a, "b": b}));
    }
    cases
}
