SPECIFICATION Spec
CONSTANTS
  FixF1 = TRUE
  FixF2 = TRUE
POSTCONDITION Report
CHECK_DEADLOCK FALSE
