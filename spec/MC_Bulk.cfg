SPECIFICATION Spec
CONSTANTS
  FixF1 = TRUE
  FixF2 = TRUE
  N = 4
  NMin = 0
  MaxReq = 3
  OutOfRange = TRUE
  DebugAssertions = TRUE
  Emit = FALSE
INVARIANTS BagInv FrameInv DoneOK PanicIffOutOfRange
PROPERTY Terminates
VIEW view
CHECK_DEADLOCK FALSE
