----------------------------- MODULE Trace_Hist ----------------------------
(***************************************************************************)
(* Validates observations of src/histogram recorded from the real code.    *)
(*                                                                         *)
(* Stateful part (C11): "hist_new" / "hist_add" events are the steps of    *)
(* real Histogram objects; the validator carries the specification state   *)
(* (axes, counts, hist) and checks every step with the design spec's       *)
(* AddResult, and the HistOK invariant against the whole history so far.   *)
(* After a rejected step the state is re-synchronised to the logged one,   *)
(* so one run reports every offending step.                                *)
(*                                                                         *)
(* Stateless events: "hist_matrix" (C11, matrix form), "edges" / "grid"    *)
(* (C13), "index" (C16), "strategy" (C12).                                 *)
(***************************************************************************)
EXTENDS Histogram, TraceBase

VARIABLES l, clean      \* clean: no rejected step in the current history

tvars == <<vars, l, clean>>

SortedAxes(rawaxes) == [a \in DOMAIN rawaxes |-> EdgesFrom(rawaxes[a])]
Zeros(ax) == [c \in 1..ShapeProd(GridShape(ax)) |-> 0]

(* ---- C11 ---- *)
NewOK(e) ==
    LET ax == SortedAxes(e.axes) IN
    /\ e.shape = GridShape(ax) /\ e.ndim = Len(ax)
    /\ e.counts = Zeros(ax)
    /\ \A a \in DOMAIN ax : Len(ax[a]) >= 2 => e.built[a] = ax[a]

AddOK(e) ==
    LET r == AddResult(axes, counts, e.pt) IN
    /\ e.res = r.res                                  \* outside the grid <=> BinNotFound
    /\ e.counts = r.counts                            \* increment of exactly the right cell / nothing changes
    /\ e.shape = GridShape(axes)
    /\ clean => e.counts = CountsOf(axes, Append(hist, e.pt))      \* HistOK against the whole history

MatrixOK(e) ==
    LET ax == SortedAxes(e.axes) IN
    /\ e.out = "ok"
    /\ e.shape = GridShape(ax)
    /\ e.counts = CountsOf(ax, e.pts)                 \* rows outside the grid are skipped

(* ---- C13 ---- *)
EdgesOK(e) ==
    LET ed == EdgesFrom(e.input) IN
    /\ e.built = ed /\ e.view = ed /\ e.by_index = ed
    /\ e.len = Len(ed) /\ e.is_empty = (Len(ed) = 0)
    /\ e.bins_len = BinsLen(ed) /\ e.bins_empty = (BinsLen(ed) = 0)
    /\ Len(e.ranges) = BinsLen(ed)
    /\ \A x \in DOMAIN e.ranges : e.ranges[x] = BinRange(ed, x - 1)
    /\ \A x \in DOMAIN e.probes :
          LET p == e.probes[x]  b == BinOf(ed, p.v) IN
          /\ p.index_of = b
          /\ p.indices = IF b = NONE THEN <<>> ELSE <<b, b + 1>>
          /\ p.range = IF b = NONE THEN <<>> ELSE BinRange(ed, b)

GridOK(e) ==
    LET ax == SortedAxes(e.axes) IN
    /\ e.ndim = Len(ax) /\ e.shape = GridShape(ax)
    /\ \A x \in DOMAIN e.probes :
          e.probes[x].idx = GridIndexOf(ax, e.probes[x].pt)
    /\ \A x \in DOMAIN e.by_index :
          LET b == e.by_index[x] IN
          /\ Len(b.ranges) = Len(ax)
          /\ \A a \in DOMAIN ax : b.ranges[a] = BinRange(ax[a], b.idx[a])

(* ---- C16 ---- *)
IndexOK(e) ==
    LET ax == SortedAxes(e.axes)
        inr == \A a \in DOMAIN ax : e.idx[a] < BinsLen(ax[a])
    IN /\ e.grid_out = IF inr THEN "ok" ELSE "panic"
       /\ e.bins_out = IF e.idx[1] < BinsLen(ax[1]) THEN "ok" ELSE "panic"

(* ---- C12 ---- *)
StrategyOK(e) ==
    IF e.n = 0 THEN e.out = "EmptyInput"
    ELSE IF e.ndistinct = 1 THEN e.out = "Strategy"
    ELSE e.out \in {"ok", "Strategy"} /\                              \* a strategy may refuse non-constant data (zero IQR, zero integer width)
         (e.out = "ok" =>
            /\ Len(e.e2) = e.bins_len + 1
            /\ IsSortedWeak(e.e2)                                      \* (doubled ranks: distinct edges between the same two data values share a rank)
            /\ Has(e, "strict") => e.strict                             \* as values the edges increase strictly: no degenerate bin [x, x)
            /\ e.e2[1] = 2                                            \* first edge = data minimum (doubled rank of the smallest value)
            /\ e.e2[Len(e.e2)] > 2 * e.nvals                          \* last edge strictly above the maximum
            /\ e.e2[Len(e.e2) - 1] <= 2 * e.nvals                     \* by at most one bin width
            /\ e.covered = e.n                                        \* every observation falls into a bin
            /\ e.hist_total = e.n                                     \* and a histogram over the grid counts all of them
            \* ... each in the bin that contains it (edges and data in doubled-rank space; left-closed, right-open)
            /\ (Has(e, "hcounts") /\ Len(e.hcounts) = e.bins_len) =>
                   \A i \in 1..e.bins_len : e.hcounts[i] = Cardinality({k \in DOMAIN e.dr : e.e2[i] <= e.dr[k] /\ e.dr[k] < e.e2[i + 1]})
            /\ (Has(e, "raw") => EqualWidth(e.raw))                   \* integer data: exactly equal widths
            /\ ((Has(e, "wdev") /\ e.mode \in {"quarter", "tenth", "third"}) => e.wdev <= 64)     \* float data: equal at the quantum (only where the width is many ulps of the data: not for the offset / big modes)
            /\ (~e.isfloat => e.n_bins = e.bins_len))                 \* advertised number of bins = bins built

(* GridBuilder: one strategy per column, then a histogram of the rows over the grid (C12, 1..3 dimensions) *)
GridBuilderOK(e) ==
    IF e.n = 0 THEN e.out = "EmptyInput"
    ELSE IF \E j \in DOMAIN e.ndistinct : e.ndistinct[j] = 1 THEN e.out = "Strategy"
    ELSE e.out \in {"ok", "Strategy"} /\
         (e.out = "ok" =>
            /\ e.ndim = Len(e.ndistinct) /\ Len(e.pcols) = e.ndim
            /\ \A j \in DOMAIN e.pcols :
                  LET c == e.pcols[j] IN
                  /\ Len(c.e2) >= 2 /\ IsSortedWeak(c.e2)
                  /\ c.e2[1] = 2 /\ c.e2[Len(c.e2)] > 2 * c.nvals /\ c.e2[Len(c.e2) - 1] <= 2 * c.nvals
                  /\ c.covered = e.n
            /\ e.hist_total = e.n)

Stateless(e) ==
    CASE e.ev = "hist_matrix" -> MatrixOK(e)
      [] e.ev = "edges"       -> EdgesOK(e)
      [] e.ev = "grid"        -> GridOK(e)
      [] e.ev = "index"       -> IndexOK(e)
      [] e.ev = "strategy"    -> StrategyOK(e)
      [] e.ev = "gridbuilder" -> GridBuilderOK(e)
      [] OTHER -> FALSE

(* drift: integer data under the data-size strategies - the documented bin count and the exact edges *)
Drift(e) ==
    /\ e.ev = "strategy" /\ e.out = "ok" /\ Has(e, "raw") /\ Has(e, "mn")
    /\ e.strat \in {"sqrt", "rice", "sturges"} /\ e.n <= 2000
    /\ LET k == StrategyK(e.strat, e.n)
           w == IF k > 0 THEN (e.mx - e.mn) \div k ELSE 0
       IN w <= 0 \/ e.raw # IntEdges(e.mn, e.mx, w)

TInit == /\ l = 1 /\ clean = TRUE
         /\ axes = <<>> /\ counts = <<>> /\ seen = <<>> /\ hist = <<>> /\ last = "none"

TNext ==
    /\ l <= Len(Rec)
    /\ LET e == Rec[l] IN
       CASE e.ev = "hist_new" ->
              /\ axes' = SortedAxes(e.axes) /\ counts' = e.counts /\ hist' = <<>> /\ seen' = <<>> /\ last' = "new"
              /\ IF NewOK(e) THEN clean' = TRUE ELSE MarkBad(l) /\ clean' = FALSE
         [] e.ev = "hist_add" ->
              /\ counts' = e.counts /\ hist' = Append(hist, e.pt) /\ last' = e.res
              /\ seen' = IF e.res = "ok" THEN Append(seen, e.pt) ELSE seen
              /\ UNCHANGED axes
              /\ IF AddOK(e) THEN UNCHANGED clean ELSE MarkBad(l) /\ clean' = FALSE
         [] OTHER ->
              /\ UNCHANGED <<vars, clean>>
              /\ IF Stateless(e) THEN (IF Drift(e) THEN MarkDrift(l) ELSE TRUE) ELSE MarkBad(l)
    /\ l' = l + 1
TSpec == TInit /\ [][TNext]_tvars
=============================================================================
