----------------------------- MODULE SelectProof ----------------------------
(***************************************************************************)
(* TLAPS proofs about SelectAlg: Inv is inductive for arrays of every      *)
(* length, every in-range position and every pivot sequence.               *)
(***************************************************************************)
EXTENDS SelectAlg, TLAPS

LEMMA InitCore == Init => Core
  BY DEF Assumptions, params, Init, Core, TypeOK, NoPanicInRange, OorInv, InRange, WantInv, SandwichInv, Post, Idx, InWin

LEMMA CheckRangeCore == Core /\ CheckRange => Core'
  BY DEF Assumptions, params, Core, CheckRange, TypeOK, NoPanicInRange, OorInv, InRange, WantInv, SandwichInv, Post, Idx, InWin

LEMMA LenOneCore == Core /\ LenOneShortcut => Core'
  BY DEF Assumptions, params, Core, LenOneShortcut, Guarded, TypeOK, NoPanicInRange, OorInv, InRange, WantInv, SandwichInv, Post, Idx, InWin

LEMMA EmptyRangeCore == Core /\ EmptyRangePanic => Core'
  BY DEF Assumptions, params, Core, EmptyRangePanic, Guarded, TypeOK, NoPanicInRange, OorInv, InRange, WantInv, SandwichInv, Post, Idx, InWin

LEMMA DrawCore == Core /\ DrawAndPartition => Core'
  <1> SUFFICES ASSUME Core, DrawAndPartition PROVE Core'
    OBVIOUS
  <1> USE DEF Idx, InWin
  <1>00. InRange /\ InRange'
    BY DEF Core, TypeOK, OorInv, InRange, DrawAndPartition, Guarded, params, Assumptions
  <1>0. /\ TypeOK /\ WantInv /\ SandwichInv /\ pc = "run" /\ want < hi - lo /\ hi - lo >= 2
        /\ Len0' = Len0 /\ Want0' = Want0
    BY DEF Core, DrawAndPartition, Guarded, params
  <1>1. PICK k \in 0 .. (hi - lo - 1) :
          /\ PartitionContract(arr, arr', k, lastq')
          /\ IF want < k
             THEN hi' = lo + k /\ UNCHANGED <<lo, want, ret, pc>>
             ELSE IF want = k
             THEN ret' = arr'[lo + want] /\ pc' = "done" /\ UNCHANGED <<lo, hi, want>>
             ELSE /\ lo' = lo + k + 1
                  /\ want' = want - (k + 1)
                  /\ UNCHANGED <<hi, ret, pc>>
    BY DEF DrawAndPartition
  <1>2. /\ arr' \in [Idx -> Int]
        /\ \A x \in Idx : ~InWin(x) => arr'[x] = arr[x]
        /\ \A y \in Idx : InWin(y) => \E y0 \in Idx : InWin(y0) /\ arr'[y] = arr[y0]
        /\ \A y \in Idx : (InWin(y) /\ y < lo + k) => arr'[y] < arr'[lo + k]
        /\ \A y \in Idx : (InWin(y) /\ y > lo + k) => arr'[y] >= arr'[lo + k]
    BY <1>1 DEF PartitionContract, Rearranges
  <1>3. /\ lo \in Int /\ hi \in Int /\ want \in Int /\ k \in Int /\ 0 <= k /\ k < hi - lo
        /\ 0 <= lo /\ lo <= hi /\ hi <= Len0 /\ Len0 \in Nat /\ Want0 \in Nat /\ Want0 < Len0
        /\ lo + want = Want0 /\ 0 <= want /\ lo + k \in Idx /\ InWin(lo + k)
    BY <1>0, <1>00 DEF TypeOK, WantInv, Assumptions, Idx, InWin
  \* the window's new contents keep the old bounds against everything outside the window
  <1>4. \A x \in Idx : \A y \in Idx : InWin(y) => ((x < lo  => arr'[x] <= arr'[y]) /\ (x >= hi => arr'[y] <= arr'[x]))
    <2> SUFFICES ASSUME NEW x \in Idx, NEW y \in Idx, InWin(y)
                 PROVE (x < lo  => arr'[x] <= arr'[y]) /\ (x >= hi => arr'[y] <= arr'[x])
      OBVIOUS
    <2>1. PICK y0 \in Idx : InWin(y0) /\ arr'[y] = arr[y0]
      BY <1>2
    <2>2. x < lo => arr'[x] = arr[x] /\ arr[x] <= arr[y0]
      BY <1>0, <1>2, <1>3, <2>1 DEF SandwichInv, InWin
    <2>3a. x >= hi => ~InWin(x)
      BY <1>3
    <2>3b. x >= hi => arr[y0] <= arr[x]
      BY <1>0, <2>1 DEF SandwichInv
    <2>3. x >= hi => arr'[x] = arr[x] /\ arr[y0] <= arr[x]
      BY <1>2, <2>3a, <2>3b
    <2> QED BY <2>1, <2>2, <2>3
  <1>5. \A y \in Idx : arr'[y] \in Int
    BY <1>2
  <1>a. CASE want < k
    <2>1. hi' = lo + k /\ lo' = lo /\ want' = want /\ ret' = ret /\ pc' = pc
      BY <1>1, <1>a
    <2>2. TypeOK'
      BY <1>0, <1>2, <1>3, <2>1 DEF TypeOK, Assumptions, Idx
    <2>3. WantInv'
      BY <1>0, <1>3, <2>1, <1>a, <1>00 DEF WantInv
    <2>4. SandwichInv'
      <3> SUFFICES ASSUME NEW x \in Idx, NEW y \in Idx, lo <= y, y < lo + k
                   PROVE (x < lo => arr'[x] <= arr'[y]) /\ (x >= lo + k => arr'[y] <= arr'[x])
        BY <1>0, <2>1 DEF SandwichInv, InWin, Idx
      <3>1. InWin(y) /\ arr'[y] < arr'[lo + k]
        BY <1>2, <1>3 DEF InWin
      <3>2. x < lo => arr'[x] <= arr'[y]
        BY <1>3, <1>4, <1>5, <3>1
      <3>3. (x >= lo + k /\ x < hi) => arr'[lo + k] <= arr'[x]
        BY <1>2, <1>3, <1>5 DEF InWin
      <3>4. x >= hi => arr'[y] <= arr'[x]
        BY <1>3, <1>4, <1>5, <3>1
      <3> QED BY <3>1, <3>2, <3>3, <3>4, <1>5, <1>3
    <2>5. Post'
      BY <1>0, <2>1 DEF Post
    <2>6. NoPanicInRange' /\ OorInv'
      BY <1>00, <1>0, <2>1 DEF NoPanicInRange, OorInv
    <2> QED BY <2>2, <2>3, <2>4, <2>5, <2>6 DEF Core
  <1>b. CASE want = k
    <2>1. ret' = arr'[lo + want] /\ pc' = "done" /\ lo' = lo /\ hi' = hi /\ want' = want
      BY <1>1, <1>b
    <2>2. TypeOK'
      BY <1>0, <1>2, <1>3, <1>5, <2>1 DEF TypeOK, Assumptions, Idx
    <2>3. WantInv'
      BY <2>1 DEF WantInv
    <2>4. SandwichInv'
      BY <1>0, <1>4, <2>1 DEF SandwichInv, InWin, Idx
    <2>5. Post'
      <3>1. ret' = arr'[Want0] /\ lo + k = Want0
        BY <2>1, <1>3, <1>b
      <3>2. ASSUME NEW x \in Idx, x < Want0 PROVE arr'[x] <= arr'[Want0]
        <4>1. CASE x < lo
          BY <1>4, <1>3, <3>1, <4>1
        <4>2. CASE x >= lo
          BY <1>2, <1>3, <1>5, <3>1, <3>2, <4>2 DEF InWin
        <4> QED BY <4>1, <4>2, <1>3
      <3>3. ASSUME NEW x \in Idx, x > Want0 PROVE arr'[Want0] <= arr'[x]
        <4>1. CASE x >= hi
          BY <1>4, <1>3, <3>1, <4>1
        <4>2. CASE x < hi
          BY <1>2, <1>3, <1>5, <3>1, <3>3, <4>2 DEF InWin
        <4> QED BY <4>1, <4>2, <1>3
      <3> QED BY <1>0, <2>1, <3>1, <3>2, <3>3 DEF Post, Idx
    <2>6. NoPanicInRange' /\ OorInv'
      BY <1>00, <1>0, <2>1 DEF NoPanicInRange, OorInv
    <2> QED BY <2>2, <2>3, <2>4, <2>5, <2>6 DEF Core
  <1>c. CASE want > k
    <2>1. lo' = lo + k + 1 /\ want' = want - (k + 1) /\ hi' = hi /\ ret' = ret /\ pc' = pc
      BY <1>1, <1>3, <1>c
    <2>2. TypeOK'
      BY <1>0, <1>2, <1>3, <2>1, <1>c DEF TypeOK, Assumptions, Idx
    <2>3. WantInv'
      BY <1>0, <1>3, <2>1, <1>c, <1>00 DEF WantInv
    <2>4. SandwichInv'
      <3> SUFFICES ASSUME NEW x \in Idx, NEW y \in Idx, lo + k + 1 <= y, y < hi
                   PROVE (x < lo + k + 1 => arr'[x] <= arr'[y]) /\ (x >= hi => arr'[y] <= arr'[x])
        BY <1>0, <2>1 DEF SandwichInv, InWin, Idx
      <3>1. InWin(y) /\ arr'[y] >= arr'[lo + k]
        BY <1>2, <1>3 DEF InWin
      <3>2. x < lo => arr'[x] <= arr'[y]
        BY <1>3, <1>4, <1>5, <3>1
      <3>3. (x >= lo /\ x < lo + k) => arr'[x] < arr'[lo + k]
        BY <1>2, <1>3 DEF InWin
      <3>4. x >= hi => arr'[y] <= arr'[x]
        BY <1>3, <1>4, <1>5, <3>1
      <3> QED BY <3>1, <3>2, <3>3, <3>4, <1>5, <1>3
    <2>5. Post'
      BY <1>0, <2>1 DEF Post
    <2>6. NoPanicInRange' /\ OorInv'
      BY <1>00, <1>0, <2>1 DEF NoPanicInRange, OorInv
    <2> QED BY <2>2, <2>3, <2>4, <2>5, <2>6 DEF Core
  <1> QED BY <1>a, <1>b, <1>c, <1>3

LEMMA StutterCore == Core /\ UNCHANGED vars => Core'
  BY DEF Assumptions, params, Core, vars, TypeOK, NoPanicInRange, OorInv, InRange, WantInv, SandwichInv, Post, Idx, InWin

LEMMA InitPerm == Init => PermInv
  BY DEF Init, PermInv, Idx

(* rearranging by an injective q keeps "every cell holds the element of a distinct original cell" *)
LEMMA DrawPerm == Inv /\ DrawAndPartition => PermInv'
  <1> SUFFICES ASSUME Inv, DrawAndPartition PROVE PermInv'
    OBVIOUS
  <1>0. PermInv /\ Len0' = Len0 /\ Arr0' = Arr0
    BY DEF Inv, DrawAndPartition, params
  <1>1. PICK k \in 0 .. (hi - lo - 1) : PartitionContract(arr, arr', k, lastq')
    BY DEF DrawAndPartition
  <1> DEFINE q == lastq'
  <1>2. q \in [Idx -> Idx] /\ perm' = [x \in Idx |-> perm[q[x]]]
    BY DEF DrawAndPartition
  <1>3. /\ \A x \in Idx : \A y \in Idx : x # y => q[x] # q[y]
        /\ \A x \in Idx : arr'[x] = arr[q[x]]
        /\ \A x \in Idx : q[x] \in Idx
    BY <1>1, <1>2 DEF PartitionContract, Rearranges
  <1>4. /\ perm \in [Idx -> Idx] /\ Arr0 \in [Idx -> Int]
        /\ \A x \in Idx : \A y \in Idx : x # y => perm[x] # perm[y]
        /\ \A x \in Idx : arr[x] = Arr0[perm[x]]
    BY <1>0 DEF PermInv
  <1>5. /\ perm' \in [Idx -> Idx]
        /\ \A x \in Idx : \A y \in Idx : x # y => perm'[x] # perm'[y]
        /\ \A x \in Idx : arr'[x] = Arr0[perm'[x]]
    <2> HIDE DEF Idx
    <2> QED BY <1>2, <1>3, <1>4
  <1> QED BY <1>0, <1>4, <1>5 DEF PermInv, Idx

LEMMA KeepPerm == ASSUME PermInv, UNCHANGED <<arr, perm, Arr0, Len0>> PROVE PermInv'
  BY DEF PermInv, Idx

THEOREM Safety == Spec => []Inv
  <1>1. Inv /\ [Next]_vars => Inv'
    <2> SUFFICES ASSUME Inv, [Next]_vars PROVE Inv'
      OBVIOUS
    <2>1. Core /\ PermInv
      BY DEF Inv
    <2>a. CASE CheckRange
      BY <2>1, <2>a, CheckRangeCore, KeepPerm DEF Inv, CheckRange, params
    <2>b. CASE LenOneShortcut
      BY <2>1, <2>b, LenOneCore, KeepPerm DEF Inv, LenOneShortcut, params
    <2>c. CASE EmptyRangePanic
      BY <2>1, <2>c, EmptyRangeCore, KeepPerm DEF Inv, EmptyRangePanic, params
    <2>d. CASE DrawAndPartition
      BY <2>1, <2>d, DrawCore, DrawPerm DEF Inv
    <2>e. CASE UNCHANGED vars
      BY <2>1, <2>e, StutterCore, KeepPerm DEF Inv, vars, params
    <2> QED BY <2>a, <2>b, <2>c, <2>d, <2>e DEF Next
  <1>2. Init => Inv
    BY InitCore, InitPerm DEF Inv
  <1>. QED  BY <1>1, <1>2, PTL DEF Spec
=============================================================================
