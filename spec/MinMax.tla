------------------------------- MODULE MinMax ------------------------------
(***************************************************************************)
(* State machine of the extremum scans (quantile/mod.rs:289-421): the      *)
(* plain forms are seeded with first() and compare every element          *)
(* (including the first) with the running extremum through partial_cmp,    *)
(* failing with UndefinedOrder on an incomparable pair; the skip forms     *)
(* fold over the non-missing elements only.  `mode' selects the routine.   *)
(***************************************************************************)
EXTENDS MinMaxOps, Json

CONSTANTS MaxLen, MaxRank, Emit

VARIABLES r, mode,      \* input (rank space, 0 = NaN), mode \in Modes
          pos, cur, have, pc, out

vars == <<r, mode, pos, cur, have, pc, out>>
Modes == {"argmin", "argmax", "skip_argmin", "skip_argmax"}
WantMin == mode \in {"argmin", "skip_argmin"}
Skip == mode \in {"skip_argmin", "skip_argmax"}

Init ==
    /\ \E n \in 0..MaxLen : r \in [1..n -> 0..MaxRank]
    /\ mode \in Modes
    /\ pos = 0 /\ cur = 0 /\ have = FALSE /\ pc = "Seed" /\ out = "none"

(* first().ok_or(EmptyInput) for the plain forms; the skip forms start from None *)
Seed ==
    /\ pc = "Seed"
    /\ IF ~Skip /\ Len(r) = 0 THEN out' = "EmptyInput" /\ pc' = "done" /\ UNCHANGED <<cur, have>>
       ELSE /\ pc' = "Scan" /\ UNCHANGED out
            /\ IF Skip THEN UNCHANGED <<cur, have>> ELSE cur' = 0 /\ have' = TRUE
    /\ UNCHANGED <<r, mode, pos>>

Better(a, b) == IF WantMin THEN a < b ELSE a > b     \* strictly better: the first extremal element wins

Step ==
    /\ pc = "Scan" /\ pos < Len(r)
    /\ LET e == r[pos + 1] IN
       IF Skip
       THEN /\ IF e = 0 THEN UNCHANGED <<cur, have>>                       \* missing: skipped
               ELSE IF ~have \/ Better(e, r[cur + 1]) THEN cur' = pos /\ have' = TRUE
               ELSE UNCHANGED <<cur, have>>
            /\ UNCHANGED <<out, pc>>
       ELSE IF e = 0 \/ r[cur + 1] = 0
            THEN out' = "UndefinedOrder" /\ pc' = "done" /\ UNCHANGED <<cur, have>>   \* partial_cmp = None
            ELSE /\ (IF Better(e, r[cur + 1]) THEN cur' = pos ELSE UNCHANGED cur)
                 /\ UNCHANGED <<have, out, pc>>
    /\ pos' = pos + 1
    /\ UNCHANGED <<r, mode>>

Finish ==
    /\ pc = "Scan" /\ pos = Len(r)
    /\ out' = IF Skip /\ ~have THEN "EmptyInput" ELSE "ok"
    /\ pc' = "done"
    /\ UNCHANGED <<r, mode, pos, cur, have>>

Next == Seed \/ Step \/ Finish
Spec == Init /\ [][Next]_vars /\ WF_vars(Next)

---------------------------------------------------------------------------
Prefix == SubSeq(r, 1, pos)

(* the running extremum is an extremum of the visited prefix *)
ScanInv ==
    (pc = "Scan" /\ ~Skip /\ pos > 0 /\ ~HasNan(Prefix)) =>
        r[cur + 1] = IF WantMin THEN MinOf(Prefix) ELSE MaxOf(Prefix)
SkipScanInv ==
    (pc = "Scan" /\ Skip) =>
        /\ have <=> Len(KeptSeq(Prefix)) > 0
        /\ have => r[cur + 1] = IF WantMin THEN MinOf(KeptSeq(Prefix)) ELSE MaxOf(KeptSeq(Prefix))

DoneOK ==
    pc = "done" =>
        LET res == [out |-> out, pos |-> cur, rank |-> IF Len(r) > 0 THEN r[cur + 1] ELSE 0] IN
        IF Skip THEN SkipArgOK(r, res, WantMin) ELSE ArgOK(r, res, WantMin)

Terminates == <>(pc = "done")

(* Refinement of the module whose invariants are PROVED for every length and content by TLAPS (MinMaxAlg.tla, proofs in *)
(* MinMaxProof.tla).                                                                                                  *)
PP == INSTANCE MinMaxAlg WITH N <- Len(r)
RefinesProof == PP!Spec

EmitInv == (Emit /\ pc = "done" /\ mode = "argmin") => PrintT(<<"REPLAY", ToJson([ev |-> "minmax", r |-> r])>>)
=============================================================================
