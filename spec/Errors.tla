------------------------------- MODULE Errors ------------------------------
(***************************************************************************)
(* Decision table of the error behaviour of every fallible routine (C17).  *)
(*                                                                         *)
(* A call is described by a record d:                                      *)
(*   class   routine class (see below)                                     *)
(*   s1      shape of the receiver                                         *)
(*   s2      shape of the second argument (pair classes)                   *)
(*   axis    0-based axis, wlen = length of the weights (axis classes)     *)
(*   qv      sequence of booleans: is the j-th requested q inside [0,1]    *)
(* `Documented(d)' is the property; `Guards(d)' transcribes the order of   *)
(* the guards in the code of each class.  MC_Errors checks that they       *)
(* agree on the whole table, each row of which is then executed by the     *)
(* real routines of the class.                                             *)
(*                                                                         *)
(* classes:                                                                *)
(*  single     mean harmonic_mean geometric_mean kurtosis skewness         *)
(*             central_moment(s) entropy min max argmin argmax             *)
(*             arg*_skipnan pearson_correlation strategy::from_array       *)
(*  pair       weighted_mean weighted_var weighted_std, the ten deviation  *)
(*             measures, kl_divergence cross_entropy                       *)
(*  sum_pair   weighted_sum                                                *)
(*  axisw      weighted_mean_axis weighted_var_axis weighted_std_axis      *)
(*  sum_axisw  weighted_sum_axis                                           *)
(*  quant      quantile(s)_axis_mut quantile(s)_mut quantile_axis_skipnan  *)
(***************************************************************************)
EXTENDS Prelude, Json

CONSTANTS Emit
VARIABLES d, pc
vars == <<d, pc>>

ShapeSize(s) == LET RECURSIVE P(_)
                    P(k) == IF k = 0 THEN 1 ELSE s[k] * P(k - 1)
                IN P(Len(s))

Res(out, a, b, k) == [out |-> out, first |-> a, second |-> b, badq |-> k]
OK == Res("ok", <<>>, <<>>, 0)
EMPTY == Res("EmptyInput", <<>>, <<>>, 0)
UNSPEC == Res("unspecified", <<>>, <<>>, 0)    \* the property is silent (empty sum-type input with a different shape)

FirstBad(qv) == CHOOSE x \in DOMAIN qv : ~qv[x] /\ \A y \in DOMAIN qv : y < x => qv[y]

(* ---- the property ---- *)
Documented(c) ==
    CASE c.class = "single" -> IF ShapeSize(c.s1) = 0 THEN EMPTY ELSE OK
      [] c.class = "pair" ->
            IF ShapeSize(c.s1) = 0 THEN EMPTY
            ELSE IF c.s1 # c.s2 THEN Res("ShapeMismatch", c.s1, c.s2, 0) ELSE OK
      [] c.class = "sum_pair" ->
            IF c.s1 = c.s2 THEN OK                                              \* empty inputs are accepted (result zero)
            ELSE IF ShapeSize(c.s1) > 0 THEN Res("ShapeMismatch", c.s1, c.s2, 0) ELSE UNSPEC
      [] c.class = "axisw" ->
            IF ShapeSize(c.s1) = 0 THEN EMPTY
            ELSE IF c.s1[c.axis + 1] # c.wlen THEN Res("ShapeMismatch", c.s1, <<c.wlen>>, 0) ELSE OK
      [] c.class = "sum_axisw" ->
            IF c.s1[c.axis + 1] = c.wlen THEN OK
            ELSE IF ShapeSize(c.s1) > 0 THEN Res("ShapeMismatch", c.s1, <<c.wlen>>, 0) ELSE UNSPEC
      [] c.class = "quant" ->
            IF \E x \in DOMAIN c.qv : ~c.qv[x] THEN Res("InvalidQuantile", <<>>, <<>>, FirstBad(c.qv))   \* checked before emptiness
            ELSE IF c.s1[c.axis + 1] = 0 THEN EMPTY ELSE OK

(* ---- transcription of the guards, in the code's order ---- *)
Guards(c) ==
    CASE c.class = "single" -> IF ShapeSize(c.s1) = 0 THEN EMPTY ELSE OK                 \* `if self.is_empty()' / first().ok_or(EmptyInput)
      [] c.class = "pair" ->                                                             \* return_err_if_empty!; return_err_unless_same_shape!
            IF ShapeSize(c.s1) = 0 THEN EMPTY
            ELSE IF c.s1 # c.s2 THEN Res("ShapeMismatch", c.s1, c.s2, 0) ELSE OK
      [] c.class = "sum_pair" ->                                                         \* means.rs:52-59: only the shape guard
            IF c.s1 # c.s2 THEN Res("ShapeMismatch", c.s1, c.s2, 0) ELSE OK
      [] c.class = "axisw" ->                                                            \* means.rs:72-77, 130-145
            IF ShapeSize(c.s1) = 0 THEN EMPTY
            ELSE IF c.s1[c.axis + 1] # c.wlen THEN Res("ShapeMismatch", c.s1, <<c.wlen>>, 0) ELSE OK
      [] c.class = "sum_axisw" ->                                                        \* means.rs:90-96
            IF c.s1[c.axis + 1] # c.wlen THEN Res("ShapeMismatch", c.s1, <<c.wlen>>, 0) ELSE OK
      [] c.class = "quant" ->                                                            \* quantile/mod.rs:448-457, 532-538
            IF \E x \in DOMAIN c.qv : ~c.qv[x] THEN Res("InvalidQuantile", <<>>, <<>>, FirstBad(c.qv))
            ELSE IF c.s1[c.axis + 1] = 0 THEN EMPTY ELSE OK

Agree(a, b) == a.out = "unspecified" \/ a = b

---------------------------------------------------------------------------
Shapes == {<<0>>, <<1>>, <<3>>, <<4>>, <<0, 3>>, <<2, 0>>, <<2, 3>>, <<3, 2>>, <<2, 2>>, <<6, 1>>, <<2, 3, 2>>, <<2, 0, 2>>, <<3, 2, 2>>}
QVs == UNION {[1..m -> BOOLEAN] : m \in 0..3}

Rows ==
    {[class |-> "single", s1 |-> s] : s \in Shapes}
    \cup {[class |-> cl, s1 |-> s, s2 |-> t] : cl \in {"pair", "sum_pair"}, s \in Shapes, t \in Shapes}
    \cup {[class |-> cl, s1 |-> s, axis |-> a, wlen |-> w] : cl \in {"axisw", "sum_axisw"}, s \in Shapes, a \in 0..2, w \in 0..4}
    \cup {[class |-> "quant", s1 |-> s, axis |-> a, qv |-> v] : s \in Shapes, a \in 0..2, v \in QVs}
(* pairs of different rank are included: with dynamic dimensions (IxDyn) both arguments have the same static type *)
ValidRow(c) == ("axis" \in DOMAIN c) => c.axis < Len(c.s1)

Init == d \in {c \in Rows : ValidRow(c)} /\ pc = "call"
Next == pc = "call" /\ pc' = "done" /\ UNCHANGED d
Spec == Init /\ [][Next]_vars

ErrOK == Agree(Documented(d), Guards(d))
(* every outcome of the table is reachable (vacuity guard) *)
EmitInv == (Emit /\ pc = "done") => PrintT(<<"REPLAY", ToJson(d)>>)
=============================================================================
