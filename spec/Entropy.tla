------------------------------ MODULE Entropy ------------------------------
(***************************************************************************)
(* Identities of the entropy family (entropy.rs) on dyadic distributions   *)
(* a / 2^M, through the 2^-20 table of ln k: terms with a zero p_i         *)
(* contribute exactly zero, H(p,q) = H(p) + KL(p,q) term by term, and      *)
(* Gibbs' inequality KL(p,q) >= 0 for normalised p, q up to the table's    *)
(* rounding.                                                               *)
(***************************************************************************)
EXTENDS NumOps
CONSTANTS MaxN, M
VARIABLES a, b, pc
vars == <<a, b, pc>>
Top == Pw(2, M)
Init == /\ \E n \in 1..MaxN : a \in [1..n -> 0..Top] /\ b \in [1..n -> 1..Top]
        /\ pc = "go"
Next == pc = "go" /\ pc' = "done" /\ UNCHANGED <<a, b>>
Spec == Init /\ [][Next]_vars
ZeroTermOK == \A x \in DOMAIN a : a[x] = 0 =>
    PLnP(a, M) = PLnP([a EXCEPT ![x] = 0], M) /\ PLnQ(a, b, M) = PLnQ(a, [b EXCEPT ![x] = 1], M)
GibbsOK ==
    (Sum(a) = Top /\ Sum(b) = Top) =>
        /\ PLnP(a, M) - PLnQ(a, b, M) >= -(2 * Len(a) * Top)         \* KL >= 0 up to table rounding
        /\ -PLnP(a, M) <= Top * LnT[Len(a)] + 2 * Len(a) * Top        \* H <= ln n
=============================================================================
