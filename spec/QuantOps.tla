------------------------------ MODULE QuantOps -----------------------------
(***************************************************************************)
(* Constant-level specification of the quantile routines                   *)
(* (src/quantile/mod.rs:423-554, interpolate.rs).                          *)
(*                                                                         *)
(* A lane is a sequence of integers (values of the element type in scaled  *)
(* units).  A quantile request is described by a record `qi' computed from *)
(* the f64 q and the lane length N in exact integer arithmetic:            *)
(*    k    = floor((N-1)q)            int  = (N-1)q is an integer          *)
(*    hc   = sign(frac((N-1)q) - 1/2)                                      *)
(*    up / dn / half : an integer just above / just below / a half-integer *)
(*           lies within the rounding error of the f64 product q*(N-1), so  *)
(*           an implementation that computes the position in f64 (as the   *)
(*           documented formula does) may see that neighbouring position;  *)
(*           both readings are admissible.                                 *)
(*    a, b : q is the f64 nearest to a/b (moved by u ulps)                  *)
(***************************************************************************)
EXTENDS Prelude

STRATS == {"lower", "higher", "nearest", "midpoint", "linear"}

(* Admissible <<lower index, higher index>> pairs for a request. *)
IndexPairs(qi) ==
    {<<qi.k, IF qi.int THEN qi.k ELSE qi.k + 1>>}
    \cup (IF qi.up THEN {<<qi.k + 1, qi.k + 1>>} ELSE {})
    \cup (IF qi.dn THEN {<<qi.k, qi.k>>} ELSE {})

(* Admissible index of the "nearer" element (ties at exactly .5 go to the higher one: needs_lower is `fraction < 0.5'). *)
NearestIdx(qi) ==
    (IF qi.int \/ qi.hc < 0 THEN {qi.k} ELSE {qi.k + 1})
    \cup (IF qi.half THEN {qi.k, qi.k + 1} ELSE {})
    \cup (IF qi.up THEN {qi.k + 1} ELSE {})
    \cup (IF qi.dn THEN {qi.k} ELSE {})

S(lane, idx) == SortedAt(lane, idx)

(* Exact linear interpolation at the rational position (N-1)a/b, times b. *)
LinearIdealTimesB(lane, qi) ==
    LET pn == (Len(lane) - 1) * qi.a
        fl == pn \div qi.b
        fr == pn % qi.b
        cl == IF fr > 0 THEN fl + 1 ELSE fl
    IN S(lane, fl) * qi.b + fr * (S(lane, cl) - S(lane, fl))

(* C01: `res' is an admissible result of strategy `strat' for request qi on `lane'.       *)
(* isfloat: element type is N64 (values in units of 2^-10; grid data make Midpoint exact). *)
QuantileValueOK(lane, qi, strat, res, isfloat) ==
    CASE strat = "lower"   -> \E pr \in IndexPairs(qi) : res = S(lane, pr[1])
      [] strat = "higher"  -> \E pr \in IndexPairs(qi) : res = S(lane, pr[2])
      [] strat = "nearest" -> \E x \in NearestIdx(qi) : res = S(lane, x)
      [] strat = "midpoint" ->
            \E pr \in IndexPairs(qi) :
                LET lo == S(lane, pr[1])  hi == S(lane, pr[2]) IN
                /\ lo <= res /\ res <= hi
                /\ IF isfloat THEN 2 * res = lo + hi ELSE Abs(2 * res - (lo + hi)) <= 2
      [] strat = "linear" ->
            /\ \E pr \in IndexPairs(qi) : S(lane, pr[1]) <= res /\ res <= S(lane, pr[2])
            /\ Abs(qi.u) < 1000 => Abs(res * qi.b - LinearIdealTimesB(lane, qi)) <= qi.b
      [] OTHER -> FALSE

---------------------------------------------------------------------------
(* Implementation-level transcription of the per-lane pipeline             *)
(* (quantile/mod.rs:465-496): which indexes are searched, and how each     *)
(* strategy combines the two order statistics.  Integer element types;     *)
(* the position is the exact one (qi.k, qi.int, qi.hc).                    *)
NeedsLower(strat, qi)  == strat \in {"lower", "midpoint", "linear"} \/ (strat = "nearest" /\ (qi.int \/ qi.hc < 0))
NeedsHigher(strat, qi) == strat \in {"higher", "midpoint", "linear"} \/ (strat = "nearest" /\ ~(qi.int \/ qi.hc < 0))
LowerIdx(qi)  == qi.k
HigherIdx(qi) == IF qi.int THEN qi.k ELSE qi.k + 1

(* CollectIndexes: the sorted, deduplicated search list for a request list. *)
SearchedIndexes(strat, qis) ==
    SetToSortedSeq({LowerIdx(qis[x]) : x \in {y \in DOMAIN qis : NeedsLower(strat, qis[y])}}
                   \cup {HigherIdx(qis[x]) : x \in {y \in DOMAIN qis : NeedsHigher(strat, qis[y])}})

(* Interpolate on integers (truncating division / truncation of the f64 product). *)
InterpolateInt(strat, lo, hi, qi, n) ==
    CASE strat = "lower"    -> lo
      [] strat = "higher"   -> hi
      [] strat = "nearest"  -> IF qi.int \/ qi.hc < 0 THEN lo ELSE hi
      [] strat = "midpoint" -> lo + TruncDiv(hi - lo, 2)
      [] strat = "linear"   -> lo + TruncDiv(((n - 1) * qi.a % qi.b) * (hi - lo), qi.b)
=============================================================================
