----------------------------- MODULE Trace_Nan -----------------------------
(***************************************************************************)
(* Validates observations of MaybeNan::remove_nan_mut (1-D strided views)  *)
(* and of map_axis_skipnan_mut (every lane of an n-D view) recorded from   *)
(* the real code, for all element types.                                   *)
(*   verdict: RemoveNanOK / RemoveNanLaneOK + frame condition (C04, C03),  *)
(*            second call returns the identical view with identical        *)
(*            contents (idempotent, deterministic);                        *)
(*   drift:   the lane after the call equals the two-pointer transcription *)
(*            RemoveNanFn; the observed view geometry equals the Layout     *)
(*            model's prediction for the layout descriptor.                *)
(***************************************************************************)
EXTENDS NanOps, Layout, TraceBase

VARIABLE l

SameView(a, b) ==
    /\ a.len = b.len
    /\ a.len >= 1 => a.ptr = b.ptr
    /\ a.len >= 2 => a.stride = b.stride

SecondCallOK(mem1, vin, mem2, vout, vout2) ==
    /\ SameView(vout2, vout)
    /\ VLane(mem2, vout2) = VLane(mem1, vout)
    /\ RemoveNanLaneOK(mem1, vin, mem2, vout2)

(* every value handed out as a 'not-NaN' typed reference really is not missing: on every cell of the buffer the library's *)
(* is_nan says "missing" exactly for the missing cells (whatever the NaN's sign, quiet bit or payload), try_as_not_nan     *)
(* hands out exactly the non-missing values, and from_not_nan gives the value back                                         *)
TypedRefOK(e) ==
    /\ Len(e.isnan) = Len(e.mem0) /\ e.tnn = e.mem0 /\ e.back = e.mem0
    /\ \A k \in DOMAIN e.mem0 : e.isnan[k] = (e.mem0[k] = 0)

RemoveNanEvOK(e) ==
    /\ e.out = "ok"
    /\ TypedRefOK(e)
    /\ InBuffer(e.mem0, e.vin)
    /\ RemoveNanOK(e.mem0, e.vin, e.mem1, e.vout)
    /\ FrameOK(e.mem1, e.mem2, e.vin)
    /\ SecondCallOK(e.mem1, e.vin, e.mem2, e.vout, e.vout2)

OutsideUnchanged(before, after, g) ==
    /\ Len(before) = Len(after)
    /\ LET A == AddrSet(g) IN \A k \in 0..(Len(before) - 1) : k \notin A => Cell(after, k) = Cell(before, k)

RemoveNanNdEvOK(e) ==
    LET g  == e.g
        ax == e.axis + 1
        nl == NumLanes(g, ax)
    IN /\ e.out = "ok"
       /\ NonAliasing(g)
       /\ Len(e.outs) = nl /\ Len(e.outs2) = nl
       /\ OutsideUnchanged(e.mem0, e.mem1, g)
       /\ OutsideUnchanged(e.mem1, e.mem2, g)
       /\ \A t \in 0..(nl - 1) :
             LET vin == LaneOf(g, ax, t) IN
             /\ RemoveNanLaneOK(e.mem0, vin, e.mem1, e.outs[t + 1])
             /\ SecondCallOK(e.mem1, vin, e.mem2, e.outs[t + 1], e.outs2[t + 1])

EventOK(e) ==
    CASE e.ev = "remove_nan"    -> RemoveNanEvOK(e)
      [] e.ev = "remove_nan_nd" -> RemoveNanNdEvOK(e)
      [] OTHER -> FALSE

Drift(e) ==
    CASE e.ev = "remove_nan" ->
            LET r == RemoveNanFn(VLane(e.mem0, e.vin))
            IN r[1] # VLane(e.mem1, e.vin) \/ ~SameView(ReturnedView(e.kind, [e.vin EXCEPT !.len = r[2]]), e.vout)
      [] e.ev = "remove_nan_nd" ->
            \/ (Size(e.g) > 0 /\ LayGeom(e.lay) # e.g)
            \/ \E t \in 0..(NumLanes(e.g, e.axis + 1) - 1) :
                  LET vin == LaneOf(e.g, e.axis + 1, t)
                      r == RemoveNanFn(VLane(e.mem0, vin))
                  IN r[1] # VLane(e.mem1, vin)
      [] OTHER -> FALSE

Init == l = 1
Next ==
    /\ l <= Len(Rec)
    /\ LET e == Rec[l] IN
         IF EventOK(e)
         THEN (IF Drift(e) THEN MarkDrift(l) ELSE TRUE)
         ELSE MarkBad(l)
    /\ l' = l + 1
Spec == Init /\ [][Next]_l
=============================================================================
