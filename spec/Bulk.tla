------------------------------- MODULE Bulk --------------------------------
(***************************************************************************)
(* State machine of `get_many_from_sorted_mut' (src/sort.rs:133-144,       *)
(* 198-298).  The recursion of `_get_many_from_sorted_mut_unchecked' is an *)
(* explicit stack in the code's depth-first order (left part first, then   *)
(* the right part with rebased indexes).  One action per stack frame.      *)
(***************************************************************************)
EXTENDS SortOps, Json

CONSTANTS N, NMin,
          MaxReq,          \* maximal length of the request list
          OutOfRange,      \* TRUE: request lists may contain n, n+1, BIG
          DebugAssertions, \* TRUE: the debug_assert!s of sort.rs:235-236,247 are compiled in
          Emit

VARIABLES init, req,      \* call-time array, raw request list (any order, repeats)
          arr,
          keys,           \* sorted, deduplicated request (sort.rs:139-141)
          vals,           \* output slots, one per key
          stack,          \* frames [lo, hi, idxs (relative to lo), slot]
          pc,             \* "entry" | "run" | "done" | "panic"
          pivots,
          perm, lastq     \* ghosts for the refinement of BulkAlg: original position of each element; last rearrangement

vars == <<init, req, arr, keys, vals, stack, pc, pivots, perm, lastq>>
view == <<init, req, arr, keys, vals, stack, pc>>

ReqValues(n) == IF OutOfRange THEN 0..(n + 1) \cup {BIG} ELSE 0..(n - 1)

(* Request lists: every list up to MaxReq over the allowed values. *)
ReqLists(n) == UNION {[1..m -> ReqValues(n)] : m \in 0..MaxReq}

Init ==
    /\ \E n \in NMin..N : init \in Patterns(n)
    /\ req \in ReqLists(Len(init))
    /\ arr = init /\ keys = <<>> /\ vals = <<>> /\ stack = <<>>
    /\ pc = "entry" /\ pivots = <<>>
    /\ perm = [x \in 0..(Len(init) - 1) |-> x] /\ lastq = [x \in 0..(Len(init) - 1) |-> x]

(* sort.rs:139-143 and 206-213 (+ the repaired range check). *)
SortDedupSeed ==
    /\ pc = "entry"
    /\ LET ks == SetToSortedSeq(RangeOf(req)) IN
       /\ keys' = ks
       /\ IF Len(ks) = 0
          THEN pc' = "done" /\ vals' = <<>> /\ stack' = <<>>           \* empty request: empty map
          ELSE IF FixF2 /\ ks[Len(ks)] >= Len(arr)
          THEN pc' = "panic" /\ vals' = <<>> /\ stack' = <<>>          \* assert!(last < n)
          ELSE IF Len(arr) = 0
          THEN pc' = "panic" /\ vals' = <<>> /\ stack' = <<>>          \* `array[0]' of sort.rs:212
          ELSE /\ vals' = [x \in DOMAIN ks |-> At(arr, 0)]
               /\ stack' = <<[lo |-> 0, hi |-> Len(arr), idxs |-> ks, slot |-> 0]>>
               /\ pc' = "run"
    /\ UNCHANGED <<init, req, arr, pivots, perm, lastq>>

Top == stack[Len(stack)]
Pop == SubSeq(stack, 1, Len(stack) - 1)
n_  == Top.hi - Top.lo

Finish ==
    /\ pc = "run" /\ stack = <<>>
    /\ pc' = "done"
    /\ UNCHANGED <<init, req, arr, keys, vals, stack, pivots, perm, lastq>>

(* sort.rs:238-241 *)
PopEmpty ==
    /\ pc = "run" /\ stack # <<>> /\ Len(Top.idxs) = 0
    /\ ~(DebugAssertions /\ n_ < 0)
    /\ stack' = Pop
    /\ UNCHANGED <<init, req, arr, keys, vals, pc, pivots, perm, lastq>>

(* sort.rs:235: debug_assert!(n >= indexes.len()) *)
DebugAssertFail ==
    /\ pc = "run" /\ stack # <<>> /\ DebugAssertions
    /\ \/ n_ < Len(Top.idxs)
       \/ (n_ = 1 /\ Len(Top.idxs) > 1)
    /\ pc' = "panic"
    /\ UNCHANGED <<init, req, arr, keys, vals, stack, pivots, perm, lastq>>

NoDebugFail == ~(DebugAssertions /\ (n_ < Len(Top.idxs) \/ (n_ = 1 /\ Len(Top.idxs) > 1)))

(* sort.rs:244-250: a one-element window answers whatever index is left. *)
LenOne ==
    /\ pc = "run" /\ stack # <<>> /\ Len(Top.idxs) > 0 /\ n_ = 1 /\ NoDebugFail
    /\ vals' = [vals EXCEPT ![Top.slot + 1] = At(arr, Top.lo)]
    /\ stack' = Pop
    /\ UNCHANGED <<init, req, arr, keys, pc, pivots, perm, lastq>>

(* sort.rs:254: gen_range(0..0) *)
EmptyRangePanic ==
    /\ pc = "run" /\ stack # <<>> /\ Len(Top.idxs) > 0 /\ n_ = 0 /\ NoDebugFail
    /\ pc' = "panic"
    /\ UNCHANGED <<init, req, arr, keys, vals, stack, pivots, perm, lastq>>

(* sort.rs:253-297 *)
DrawPartitionSplit(p) ==
    /\ pc = "run" /\ stack # <<>> /\ Len(Top.idxs) > 0 /\ n_ >= 2 /\ NoDebugFail
    /\ LET f   == Top
           r   == PartitionWin(arr, f.lo, f.hi, p)
           k   == r[2]
           bs  == BinSearch(f.idxs, k)
           sp  == bs[2]
           ex  == IF bs[1] THEN 1 ELSE 0
           left  == SubSeq(f.idxs, 1, sp)
           rest  == SubSeq(f.idxs, sp + 1 + ex, Len(f.idxs))
           right == [x \in DOMAIN rest |-> rest[x] - (k + 1)]      \* Rebase, sort.rs:290-292
       IN /\ pivots' = Append(pivots, <<n_, p>>)
          /\ IF k = PANIC
             THEN pc' = "panic" /\ UNCHANGED <<arr, vals, stack, perm, lastq>>
             ELSE /\ arr' = r[1]
                  /\ lastq' = MatchPerm(arr, r[1])
                  /\ perm' = [x \in DOMAIN perm |-> perm[MatchPerm(arr, r[1])[x]]]
                  /\ vals' = IF bs[1] THEN [vals EXCEPT ![f.slot + sp + 1] = At(r[1], f.lo + k)] ELSE vals
                  \* right frame pushed first so that the left one is processed first
                  /\ stack' = Pop \o <<[lo |-> f.lo + k + 1, hi |-> f.hi, idxs |-> right, slot |-> f.slot + sp + ex],
                                       [lo |-> f.lo, hi |-> f.lo + k, idxs |-> left, slot |-> f.slot]>>
                  /\ UNCHANGED pc
    /\ UNCHANGED <<init, req, keys>>

Next == \/ SortDedupSeed \/ Finish \/ PopEmpty \/ DebugAssertFail \/ LenOne \/ EmptyRangePanic
        \/ (pc = "run" /\ stack # <<>> /\ \E p \in 0..(n_ - 1) : DrawPartitionSplit(p))
Spec == Init /\ [][Next]_vars /\ WF_vars(Next)

---------------------------------------------------------------------------
InRange == \A x \in DOMAIN req : req[x] < Len(init)

BagInv == SameBag(arr, init)

(* Frames are disjoint windows, and each frame's indexes are in range,     *)
(* strictly increasing and address distinct output slots.                  *)
FrameInv ==
    (pc = "run" /\ InRange) =>
      \A x \in DOMAIN stack :
         LET f == stack[x] IN
         /\ 0 <= f.lo /\ f.lo <= f.hi /\ f.hi <= Len(arr)
         /\ IsSortedStrict(f.idxs)
         /\ \A y \in DOMAIN f.idxs : 0 <= f.idxs[y] /\ f.idxs[y] < f.hi - f.lo
                                     /\ keys[f.slot + y] = f.lo + f.idxs[y]

DoneOK == pc = "done" => BulkOK(init, req, keys, vals, arr)

PanicIffOutOfRange ==
    /\ pc = "panic" => ~InRange
    /\ pc = "done"  => InRange

Terminates == <>(pc \in {"done", "panic"})

(* Refinement of the module whose invariants are PROVED for every length, request set and pivot sequence by TLAPS   *)
(* (BulkAlg.tla, proofs in BulkProof.tla): the explicit stack is read as the set of its windows, the request as the *)
(* set of its values; sorting / de-duplicating the request is a stuttering step there.  In-range requests only.      *)
ZeroBased(s) == [x \in 0..(Len(s) - 1) |-> s[x + 1]]
WholeFrame == IF RangeOf(req) = {} THEN {} ELSE {[lo |-> 0, hi |-> Len(init)]}
PP == INSTANCE BulkAlg WITH Len0 <- Len(init), W <- RangeOf(req), Arr0 <- ZeroBased(init), arr <- ZeroBased(arr),
                            frames <- IF pc = "entry" THEN WholeFrame ELSE {[lo |-> stack[x].lo, hi |-> stack[x].hi] : x \in DOMAIN stack},
                            pc <- IF pc = "entry" THEN "run" ELSE pc
RefinesProof == PP!Spec

EmitInv ==
    (Emit /\ pc \in {"done", "panic"}) =>
        PrintT(<<"REPLAY", ToJson([ev |-> "bulk", a |-> init, idx |-> req,
                                   pv |-> [x \in DOMAIN pivots |-> pivots[x][2]]])>>)
=============================================================================
