---------------------------- MODULE RemoveNanAlg ----------------------------
(***************************************************************************)
(* `remove_nan_mut' (src/maybe_nan/mod.rs:46-71) on a lane of ANY length:  *)
(* the state machine (same actions and cursor arithmetic as RemoveNan.tla, *)
(* without the memory layout) and the invariants that RemoveNanProof.tla   *)
(* proves with TLAPS.  An element is an integer, 0 standing for a missing  *)
(* value (NaN / None).                                                     *)
(*                                                                         *)
(* Tied to RemoveNan.tla by TLC: the property RefinesProof of that module  *)
(* says that every behaviour of RemoveNan - any stride, offset and element *)
(* kind - is a behaviour of this module, reading the view's elements in    *)
(* logical order.                                                          *)
(***************************************************************************)
EXTENDS Integers

VARIABLES Len0,     \* length of the lane (never changes)
          Lane0,    \* call-time contents: a function on 0 .. Len0-1 (never changes)
          lane, i, j, pc, ret,
          perm      \* ghost: perm[x] is the original position of the element now at x
vars == <<Len0, Lane0, lane, i, j, pc, ret, perm>>
params == <<Len0, Lane0>>

Assumptions ==
    /\ Len0 \in Nat
    /\ Lane0 \in [0 .. (Len0 - 1) -> Int]

Idx == 0 .. (Len0 - 1)
Missing(v) == v = 0
Swap(a, x, y) == [a EXCEPT ![x] = a[y], ![y] = a[x]]

Init ==
    /\ Assumptions
    /\ lane = Lane0 /\ i = 0 /\ j = 0 /\ pc = "Start" /\ ret = 0
    /\ perm = [x \in 0 .. (Len0 - 1) |-> x]

(* mod.rs:47-51 *)
Start ==
    /\ pc = "Start"
    /\ IF Len0 = 0 THEN pc' = "Cast" /\ i' = 0 /\ j' = 0
       ELSE i' = 0 /\ j' = Len0 - 1 /\ pc' = "ScanI"
    /\ UNCHANGED <<lane, ret, params, perm>>

(* mod.rs:55-57 *)
StepI ==
    /\ pc = "ScanI"
    /\ IF i <= j /\ ~Missing(lane[i]) THEN i' = i + 1 /\ pc' = "ScanI" ELSE i' = i /\ pc' = "ScanJ"
    /\ UNCHANGED <<lane, j, ret, params, perm>>

(* mod.rs:59-61 *)
StepJ ==
    /\ pc = "ScanJ"
    /\ IF j > i /\ Missing(lane[j]) THEN j' = j - 1 /\ pc' = "ScanJ" ELSE j' = j /\ pc' = "Cmp"
    /\ UNCHANGED <<lane, i, ret, params, perm>>

(* mod.rs:63-69 *)
Cmp ==
    /\ pc = "Cmp"
    /\ IF i >= j THEN pc' = "Cast" /\ UNCHANGED <<lane, i, j, perm>>
       ELSE /\ lane' = Swap(lane, i, j) /\ perm' = Swap(perm, i, j)
            /\ i' = i + 1 /\ j' = j - 1 /\ pc' = "ScanI"
    /\ UNCHANGED <<ret, params>>

(* slice_move(s![..i]) *)
Cast ==
    /\ pc = "Cast"
    /\ ret' = i
    /\ pc' = "done"
    /\ UNCHANGED <<lane, i, j, params, perm>>

Next == Start \/ StepI \/ StepJ \/ Cmp \/ Cast
Spec == Init /\ [][Next]_vars

---------------------------------------------------------------------------
Scanning == pc \in {"ScanI", "ScanJ", "Cmp"}

TypeOK ==
    /\ Assumptions
    /\ lane \in [Idx -> Int]
    /\ i \in Int /\ j \in Int /\ ret \in Int
    /\ pc \in {"Start", "ScanI", "ScanJ", "Cmp", "Cast", "done"}

(* every read `lane[i]' / `lane[j]' of the actions is inside the lane *)
CursorInv ==
    Scanning => /\ 0 <= i /\ i <= Len0
                /\ 0 <= j /\ j <= Len0 - 1
                /\ i <= j + 1

(* the comments of mod.rs:53-54, plus what each scan knows when it stops *)
LoopInv ==
    Scanning => /\ \A t \in Idx : t < i => ~Missing(lane[t])
                /\ \A t \in Idx : t > j => Missing(lane[t])
                /\ (pc \in {"ScanJ", "Cmp"} /\ i <= j) => Missing(lane[i])
                /\ (pc = "Cmp" /\ j > i) => ~Missing(lane[j])

(* C04 at return: the kept prefix is exactly the non-missing part *)
Split(k) ==
    /\ 0 <= k /\ k <= Len0
    /\ \A t \in Idx : t < k => ~Missing(lane[t])
    /\ \A t \in Idx : t >= k => Missing(lane[t])

Post ==
    /\ pc = "Cast" => Split(i)
    /\ pc = "done" => Split(ret)

StartOK == pc = "Start" => lane = Lane0

(* C03 / C04 for every length: the lane is at all times a rearrangement of the original one - every cell holds the *)
(* element of a distinct original cell (an injection of a finite set into itself is a bijection: none is lost)    *)
PermInv ==
    /\ perm \in [Idx -> Idx]
    /\ \A x \in Idx : \A y \in Idx : x # y => perm[x] # perm[y]
    /\ \A x \in Idx : lane[x] = Lane0[perm[x]]

Core == TypeOK /\ CursorInv /\ LoopInv /\ Post /\ StartOK
Inv == Core /\ PermInv
=============================================================================
