----------------------------- MODULE Trace_Sort ----------------------------
(***************************************************************************)
(* Validates observations of partition_mut / get_from_sorted_mut /         *)
(* get_many_from_sorted_mut recorded from the real code.                   *)
(*   verdict: the abstract predicates of SortOps (C15, C02, C16, C03);     *)
(*   drift:   the logged pivots replayed through the transcription         *)
(*            (SelectFn / BulkFn / PartitionFn) give the logged result.    *)
(***************************************************************************)
EXTENDS SortOps, ViewOps, TraceBase

VARIABLE l

InRangeAll(idx, n) == \A x \in DOMAIN idx : idx[x] < n

(* C03: when the parent buffer was recorded (fields pm0, pm1, vin): nothing outside the view changed *)
ParentOK(e) ==
    /\ Has(e, "pm0") => FrameOK(e.pm0, e.pm1, e.vin)
    \* elements whose order looks only at a key: the multiset of *identities* is preserved, not only the keys
    /\ Has(e, "ida") => SameBag(e.ida, e.idafter)
    \* copy-on-write representations (a shared ArcArray1 handle, a borrowing CowArray): the other handle keeps its contents
    /\ Has(e, "other_ok") => e.other_ok = TRUE

(* ---- verdict level ---- *)
PartitionEvOK(e) ==
    LET inr == e.p < Len(e.a) IN
    /\ e.out \in {"ok", "panic"}
    /\ SameBag(e.a, e.after)                                  \* C03, also on the panic path
    /\ ParentOK(e)
    /\ (e.out = "panic") <=> ~inr                             \* C15 (never for in-range) / C16
    /\ e.out = "ok" => PartitionOK(e.a, e.p, e.k, e.after)    \* C15

SelectEvOK(e) ==
    LET inr == e.i < Len(e.a) IN
    /\ e.out \in {"ok", "panic"}
    /\ SameBag(e.a, e.after)
    /\ ParentOK(e)
    /\ (e.out = "panic") <=> ~inr                             \* C16, under the pivots actually used
    /\ e.out = "ok" => SelectOK(e.a, e.i, e.ret, e.after)     \* C02

BulkEvOK(e) ==
    LET inr == InRangeAll(e.idx, Len(e.a)) IN
    /\ e.out \in {"ok", "panic"}
    /\ SameBag(e.a, e.after)
    /\ ParentOK(e)
    /\ (e.out = "panic") <=> ~inr
    /\ e.out = "ok" => BulkOK(e.a, e.idx, e.keys, e.vals, e.after)

(* C18: entry for index i of the bulk form = single selection of i *)
BulkPairEvOK(e) ==
    /\ e.out = "ok"
    /\ \A x \in DOMAIN e.singles :
          /\ e.singles[x].out = "ok"
          /\ \E y \in DOMAIN e.keys : e.keys[y] = e.singles[x].i /\ e.vals[y] = e.singles[x].ret
    /\ \A y \in DOMAIN e.keys : \E x \in DOMAIN e.singles : e.singles[x].i = e.keys[y]

(* C03 on the unwinding path: one element's comparisons panic; whatever the routine was doing when that happened, the lane *)
(* still holds every element exactly once (identities) and nothing outside the view changed                               *)
PoisonEvOK(e) ==
    /\ e.out \in {"ok", "panic"}
    /\ SameBag(e.ida, e.idafter)
    /\ FrameOK(e.pm0, e.pm1, e.vin)

EventOK(e) ==
    CASE e.ev = "partition" -> PartitionEvOK(e)
      [] e.ev = "poison"    -> PoisonEvOK(e)
      [] e.ev = "bulkpair"  -> BulkPairEvOK(e)
      [] e.ev = "select"    -> SelectEvOK(e)
      [] e.ev = "bulk"      -> BulkEvOK(e)
      [] OTHER              -> FALSE         \* "abort", "timeout", unknown: never acceptable

(* ---- drift level: only for accepted, successful, in-range calls ---- *)
PartitionDrift(e) ==
    e.out = "ok" /\ PartitionFn(e.a, e.p) # <<e.after, e.k>>

SelectDrift(e) ==
    e.out = "ok" /\ Len(e.a) <= 100 /\
    LET r == SelectFn(e.a, 0, Len(e.a), e.i, e.pv, 0)
    IN r.ret # e.ret \/ r.arr # e.after \/ r.used # Len(e.pv)

BulkDrift(e) ==
    e.out = "ok" /\ Len(e.keys) > 0 /\ Len(e.a) <= 100 /\
    LET r == BulkFn(e.a, e.keys, e.pv)
    IN ~r.ok \/ r.vals # e.vals \/ r.arr # e.after \/ r.used # Len(e.pv)

Drift(e) ==
    CASE e.ev = "partition" -> PartitionDrift(e)
      [] e.ev = "select"    -> SelectDrift(e)
      [] e.ev = "bulk"      -> BulkDrift(e)
      [] OTHER              -> FALSE

Init == l = 1
Next ==
    /\ l <= Len(Rec)
    /\ LET e == Rec[l] IN
         IF EventOK(e)
         THEN (IF Drift(e) THEN MarkDrift(l) ELSE TRUE)
         ELSE MarkBad(l)
    /\ l' = l + 1
Spec == Init /\ [][Next]_l
=============================================================================
