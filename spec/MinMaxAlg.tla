------------------------------ MODULE MinMaxAlg -----------------------------
(***************************************************************************)
(* The extremum scans (quantile/mod.rs:289-421) over a sequence of ANY     *)
(* length in logical order (ranks; 0 stands for NaN / a missing value):    *)
(* same actions as MinMax.tla.  MinMaxProof.tla proves with TLAPS, for     *)
(* every length and content, that                                          *)
(*   plain forms:  "ok" is returned exactly when there is at least one     *)
(*                 element and none is NaN, and then the designated        *)
(*                 element is <= (>=) every element and is the first such; *)
(*                 "UndefinedOrder" exactly when some element is NaN;      *)
(*                 "EmptyInput" exactly for the empty sequence (C05);      *)
(*   skip forms:   "ok" exactly when some element is not missing, and then *)
(*                 the designated element is not missing and is the first  *)
(*                 extremum of the non-missing ones; "EmptyInput"          *)
(*                 otherwise (C14).                                        *)
(* Tied to MinMax.tla by TLC: property RefinesProof.                       *)
(***************************************************************************)
EXTENDS Integers

VARIABLES N, r, mode,        \* parameters: length, contents (function on 1..N), routine (never change)
          pos, cur, have, pc, out
vars == <<N, r, mode, pos, cur, have, pc, out>>
params == <<N, r, mode>>

Modes == {"argmin", "argmax", "skip_argmin", "skip_argmax"}
WantMin == mode \in {"argmin", "skip_argmin"}
Skip == mode \in {"skip_argmin", "skip_argmax"}
Assumptions == N \in Nat /\ r \in [1 .. N -> Nat] /\ mode \in Modes

Init ==
    /\ Assumptions
    /\ pos = 0 /\ cur = 0 /\ have = FALSE /\ pc = "Seed" /\ out = "none"

Seed ==
    /\ pc = "Seed"
    /\ IF ~Skip /\ N = 0 THEN out' = "EmptyInput" /\ pc' = "done" /\ UNCHANGED <<cur, have>>
       ELSE /\ pc' = "Scan" /\ UNCHANGED out
            /\ IF Skip THEN UNCHANGED <<cur, have>> ELSE cur' = 0 /\ have' = TRUE
    /\ UNCHANGED <<params, pos>>

Better(a, b) == IF WantMin THEN a < b ELSE a > b

Step ==
    /\ pc = "Scan" /\ pos < N
    /\ LET e == r[pos + 1] IN
       IF Skip
       THEN /\ IF e = 0 THEN UNCHANGED <<cur, have>>
               ELSE IF ~have \/ Better(e, r[cur + 1]) THEN cur' = pos /\ have' = TRUE
               ELSE UNCHANGED <<cur, have>>
            /\ UNCHANGED <<out, pc>>
       ELSE IF e = 0 \/ r[cur + 1] = 0
            THEN out' = "UndefinedOrder" /\ pc' = "done" /\ UNCHANGED <<cur, have>>
            ELSE /\ (IF Better(e, r[cur + 1]) THEN cur' = pos ELSE UNCHANGED cur)
                 /\ UNCHANGED <<have, out, pc>>
    /\ pos' = pos + 1
    /\ UNCHANGED params

Finish ==
    /\ pc = "Scan" /\ pos = N
    /\ out' = IF Skip /\ ~have THEN "EmptyInput" ELSE "ok"
    /\ pc' = "done"
    /\ UNCHANGED <<params, pos, cur, have>>

Next == Seed \/ Step \/ Finish
Spec == Init /\ [][Next]_vars

---------------------------------------------------------------------------
Idx == 1 .. N
NotWorse(a, b) == IF WantMin THEN a <= b ELSE a >= b          \* a is at least as extreme as b

TypeOK ==
    /\ Assumptions
    /\ pos \in Nat /\ pos <= N /\ cur \in Nat /\ have \in BOOLEAN
    /\ pc \in {"Seed", "Scan", "done"}
    /\ out \in {"none", "ok", "EmptyInput", "UndefinedOrder"}

(* what is known about the visited prefix 1..pos while scanning *)
ScanInv ==
    pc = "Scan" =>
        /\ out = "none"
        /\ ~Skip => /\ have /\ N >= 1 /\ cur + 1 \in Idx /\ (pos >= 1 => cur < pos) /\ (pos = 0 => cur = 0)
                    /\ \A x \in Idx : x <= pos => r[x] # 0                               \* no NaN so far
                    /\ \A x \in Idx : x <= pos => NotWorse(r[cur + 1], r[x])             \* extremum of the prefix
                    /\ \A x \in Idx : (x <= pos /\ x < cur + 1) => r[x] # r[cur + 1]     \* the first one
        /\ Skip  => /\ have <=> \E x \in Idx : x <= pos /\ r[x] # 0
                    /\ have => /\ cur + 1 \in Idx /\ cur < pos /\ r[cur + 1] # 0
                               /\ \A x \in Idx : (x <= pos /\ r[x] # 0) => NotWorse(r[cur + 1], r[x])
                               /\ \A x \in Idx : (x <= pos /\ x < cur + 1 /\ r[x] # 0) => r[x] # r[cur + 1]

(* C05 / C14 at return *)
Designates ==     \* cur designates the first extremum among the elements that count
    /\ cur + 1 \in Idx /\ r[cur + 1] # 0
    /\ \A x \in Idx : r[x] # 0 => NotWorse(r[cur + 1], r[x])
    /\ \A x \in Idx : (x < cur + 1 /\ r[x] # 0) => r[x] # r[cur + 1]

Post ==
    pc = "done" =>
        IF Skip
        THEN /\ out \in {"ok", "EmptyInput"}
             /\ out = "ok" <=> \E x \in Idx : r[x] # 0
             /\ out = "ok" => Designates
        ELSE /\ out \in {"ok", "EmptyInput", "UndefinedOrder"}
             /\ out = "EmptyInput" <=> N = 0
             /\ out = "UndefinedOrder" <=> \E x \in Idx : r[x] = 0
             /\ out = "ok" => Designates

SeedOK == pc = "Seed" => (pos = 0 /\ out = "none" /\ ~have)

Inv == TypeOK /\ ScanInv /\ Post /\ SeedOK
=============================================================================
