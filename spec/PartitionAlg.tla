--------------------------- MODULE PartitionAlg ----------------------------
(***************************************************************************)
(* `partition_mut' (src/sort.rs) for arrays of ANY length: the state        *)
(* machine and the invariants that PartitionProof.tla proves with TLAPS.   *)
(*                                                                         *)
(* TLC checks the Partition module exhaustively for arrays of up to 6 / 7  *)
(* elements.  This module states the same state machine (same actions,     *)
(* same cursor arithmetic, the repaired `j <= 1' guard of the downward     *)
(* scan) over an array of ANY length holding ANY integers, for ANY         *)
(* in-range pivot position, and proves by induction that in every          *)
(* reachable state                                                         *)
(*   - every array access is inside the array (CursorInv),                 *)
(*   - the loop invariant of the scheme holds (LoopInv),                   *)
(*   - the control state "panic" is never reached (C15: no panic for an    *)
(*     in-range pivot position),                                           *)
(*   - at return the arrangement clauses of C15 hold: the pivot value sits *)
(*     at the returned index, everything before it is strictly smaller,    *)
(*     everything after it is not smaller (Post).                          *)
(* The multiset clause is not proved here (every mutation is `Swap'; TLC   *)
(* checks BagInv in every state of the bounded model).                     *)
(*                                                                         *)
(* The state machine is tied to Partition.tla by TLC: the property         *)
(* RefinesProof of that module (checked in MC_Partition_emit: every        *)
(* pattern, every in-range pivot position) says that every behaviour of    *)
(* Partition is a behaviour of this module under the substitution          *)
(* 1-based sequence -> 0-based function.                                   *)
(***************************************************************************)
EXTENDS Integers

(* The parameters of a call are variables that never change (so that the   *)
(* Partition module, where they are variables too, can be mapped onto this *)
(* one): any length, any integer contents, any in-range pivot position.    *)
VARIABLES Len0,     \* length of the array
          Arr0,     \* initial contents: a function on 0 .. Len0-1 (0-based, as in the code)
          P0,       \* pivot position
          arr, pv, i, j, pc, ret,
          perm      \* ghost: perm[x] is the original position of the element now at x
vars == <<Len0, Arr0, P0, arr, pv, i, j, pc, ret, perm>>
params == <<Len0, Arr0, P0>>

Assumptions ==
    /\ Len0 \in Nat
    /\ Arr0 \in [0 .. (Len0 - 1) -> Int]
    /\ P0 \in Nat                            \* any pivot position: in range (P0 < Len0) or not

Idx == 0 .. (Len0 - 1)
Swap(a, x, y) == [a EXCEPT ![x] = a[y], ![y] = a[x]]

Init ==
    /\ Assumptions
    /\ arr = Arr0 /\ pv = 0 /\ i = 0 /\ j = 0 /\ pc = "Start" /\ ret = 0
    /\ perm = [x \in 0 .. (Len0 - 1) |-> x]

(* sort.rs:151-155 *)
Start ==
    /\ pc = "Start"
    /\ IF P0 >= Len0
       THEN pc' = "panic" /\ UNCHANGED <<arr, pv, i, j, perm>>
       ELSE /\ pv' = arr[P0]
            /\ arr' = Swap(arr, P0, 0) /\ perm' = Swap(perm, P0, 0)
            /\ i' = 1
            /\ j' = Len0 - 1
            /\ pc' = "ScanI"
    /\ UNCHANGED <<ret, params>>

(* sort.rs:157-165 *)
StepI ==
    /\ pc = "ScanI"
    /\ IF i > j THEN pc' = "ScanJ" /\ i' = i
       ELSE IF arr[i] >= pv THEN pc' = "ScanJ" /\ i' = i
       ELSE i' = i + 1 /\ pc' = "ScanI"
    /\ UNCHANGED <<arr, pv, j, ret, params, perm>>

(* sort.rs:166-171, with the repaired guard `j <= 1' *)
StepJ ==
    /\ pc = "ScanJ"
    /\ IF pv <= arr[j]
       THEN IF j <= 1 THEN pc' = "Cmp" /\ j' = j
            ELSE IF j = 0 THEN pc' = "panic" /\ j' = j
            ELSE j' = j - 1 /\ pc' = "ScanJ"
       ELSE pc' = "Cmp" /\ j' = j
    /\ UNCHANGED <<arr, pv, i, ret, params, perm>>

(* sort.rs:172-181 *)
Cmp ==
    /\ pc = "Cmp"
    /\ IF i >= j
       THEN /\ arr' = Swap(arr, 0, i - 1) /\ perm' = Swap(perm, 0, i - 1)
            /\ ret' = i - 1
            /\ pc' = "done"
            /\ UNCHANGED <<i, j>>
       ELSE /\ arr' = Swap(arr, i, j) /\ perm' = Swap(perm, i, j)
            /\ i' = i + 1
            /\ j' = j - 1
            /\ pc' = "ScanI"
            /\ UNCHANGED <<ret, params>>
    /\ UNCHANGED <<pv, params>>

Next == Start \/ StepI \/ StepJ \/ Cmp
Spec == Init /\ [][Next]_vars

---------------------------------------------------------------------------
Running == pc \in {"ScanI", "ScanJ", "Cmp"}

TypeOK ==
    /\ Assumptions
    /\ arr \in [Idx -> Int]
    /\ pv \in Int /\ i \in Int /\ j \in Int /\ ret \in Int
    /\ pc \in {"Start", "ScanI", "ScanJ", "Cmp", "done", "panic"}

(* C15 / C16 for every length: an in-range pivot position never panics; an out-of-range one panics at once, before *)
(* anything is rearranged, and nothing is ever returned                                                            *)
InRange == P0 < Len0
NoPanicInRange == InRange => pc # "panic"
OorInv == ~InRange => (pc \in {"Start", "panic"} /\ arr = Arr0)

(* every read `arr[i]' / `arr[j]' of the actions is inside the array *)
CursorInv ==
    Running =>
        /\ 1 <= i /\ i <= Len0
        /\ 0 <= j /\ j <= Len0 - 1
        /\ i <= j + 1

LoopInv ==
    Running =>
        /\ arr[0] = pv
        /\ \A x \in Idx : (1 <= x /\ x < i) => arr[x] < pv
        /\ \A x \in Idx : x > j => arr[x] >= pv
        /\ (pc \in {"ScanJ", "Cmp"} /\ i <= j) => arr[i] >= pv      \* the upward scan stopped on an element >= pivot
        /\ (pc = "Cmp" /\ j >= 2) => arr[j] < pv                     \* the downward scan stopped on an element < pivot

(* C15 at return (arrangement clauses) *)
Post ==
    pc = "done" =>
        /\ ret \in Idx
        /\ arr[ret] = pv
        /\ \A x \in Idx : x < ret => arr[x] < pv
        /\ \A x \in Idx : x > ret => arr[x] >= pv

StartOK == pc = "Start" => arr = Arr0

(* C03 for every length: the array is at all times a rearrangement of the original one - every cell holds the element *)
(* of a distinct original cell (an injection of a finite set into itself is a bijection, so none is lost either)      *)
PermInv ==
    /\ perm \in [Idx -> Idx]
    /\ \A x \in Idx : \A y \in Idx : x # y => perm[x] # perm[y]
    /\ \A x \in Idx : arr[x] = Arr0[perm[x]]

Core == TypeOK /\ NoPanicInRange /\ OorInv /\ CursorInv /\ LoopInv /\ Post /\ StartOK
Inv == Core /\ PermInv

=============================================================================
