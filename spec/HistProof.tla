------------------------------ MODULE HistProof -----------------------------
EXTENDS HistAlg, FiniteSetTheorems, TLAPS

LEMMA HitsFinite ==
    ASSUME NEW h \in Seq(Int), NEW c \in Int
    PROVE  IsFiniteSet(Hits(h, c))
  <1>1. IsFiniteSet(1 .. Len(h))
    BY FS_Interval
  <1>2. Hits(h, c) \subseteq 1 .. Len(h)
    BY DEF Hits
  <1> QED BY <1>1, <1>2, FS_Subset

(* appending an observation of cell d adds one hit to cell d and none to any other cell *)
LEMMA HitsAppend ==
    ASSUME NEW h \in Seq(Int), NEW d \in Int, NEW c \in Int
    PROVE  Cardinality(Hits(Append(h, d), c)) = Cardinality(Hits(h, c)) + (IF c = d THEN 1 ELSE 0)
  <1> DEFINE n == Len(h)
  <1>0. n \in Nat /\ Len(Append(h, d)) = n + 1
        /\ (\A k \in 1 .. n : Append(h, d)[k] = h[k]) /\ Append(h, d)[n + 1] = d
    OBVIOUS
  <1>1. IsFiniteSet(Hits(h, c))
    BY HitsFinite
  <1>a. CASE c = d
    <2>1. Hits(Append(h, d), c) = Hits(h, c) \cup {n + 1}
      BY <1>0, <1>a DEF Hits
    <2>2. n + 1 \notin Hits(h, c)
      BY <1>0 DEF Hits
    <2> QED BY <1>1, <2>1, <2>2, <1>a, FS_AddElement
  <1>b. CASE c # d
    <2>1. Hits(Append(h, d), c) = Hits(h, c)
      BY <1>0, <1>b DEF Hits
    <2>2. Cardinality(Hits(h, c)) \in Nat
      BY <1>1, FS_CardinalityType
    <2> QED BY <2>1, <2>2, <1>b
  <1> QED BY <1>a, <1>b

LEMMA InitInv == Init => Inv
  <1> SUFFICES ASSUME Init PROVE Inv
    OBVIOUS
  <1>1. \A c \in 1 .. NC : Hits(cells, c) = {}
    BY DEF Init, Hits
  <1> QED BY <1>1, FS_EmptySet DEF Init, Inv, TypeOK, Exact

LEMMA AcceptedInv == ASSUME Inv, NEW d \in 1 .. NC, Accepted(d) PROVE Inv'
  <1>0. NC \in Nat /\ NC' = NC /\ counts \in [1 .. NC -> Nat] /\ cells \in Seq(0 .. NC) /\ d \in 0 .. NC /\ d \in Int
        /\ counts' = [counts EXCEPT ![d] = @ + 1] /\ cells' = Append(cells, d)
    BY DEF Inv, TypeOK, Accepted
  <1>1. cells \in Seq(Int)
    BY <1>0
  <1>2. TypeOK'
    BY <1>0 DEF TypeOK
  <1>3. ASSUME NEW c \in 1 .. NC PROVE counts'[c] = Cardinality(Hits(cells', c))
    <2>1. Cardinality(Hits(cells', c)) = Cardinality(Hits(cells, c)) + (IF c = d THEN 1 ELSE 0)
      BY <1>0, <1>1, HitsAppend
    <2>2. counts[c] = Cardinality(Hits(cells, c))
      BY DEF Inv, Exact
    <2>3. counts'[c] = counts[c] + (IF c = d THEN 1 ELSE 0)
      BY <1>0
    <2> QED BY <2>1, <2>2, <2>3
  <1> QED BY <1>0, <1>2, <1>3 DEF Inv, Exact

LEMMA RejectedInv == Inv /\ Rejected => Inv'
  <1> SUFFICES ASSUME Inv, Rejected PROVE Inv'
    OBVIOUS
  <1>0. NC \in Nat /\ NC' = NC /\ counts' = counts /\ counts \in [1 .. NC -> Nat] /\ cells \in Seq(0 .. NC) /\ cells' = Append(cells, 0)
    BY DEF Inv, TypeOK, Rejected
  <1>1. cells \in Seq(Int)
    BY <1>0
  <1>2. TypeOK'
    BY <1>0 DEF TypeOK
  <1>3. ASSUME NEW c \in 1 .. NC PROVE counts'[c] = Cardinality(Hits(cells', c))
    <2>1. Cardinality(Hits(cells', c)) = Cardinality(Hits(cells, c)) + (IF c = 0 THEN 1 ELSE 0)
      BY <1>0, <1>1, HitsAppend
    <2>2. counts[c] = Cardinality(Hits(cells, c)) /\ c # 0
      BY DEF Inv, Exact
    <2>3. Cardinality(Hits(cells, c)) \in Nat
      BY <1>1, HitsFinite, FS_CardinalityType
    <2> QED BY <1>0, <2>1, <2>2, <2>3
  <1> QED BY <1>0, <1>2, <1>3 DEF Inv, Exact

LEMMA StutterInv == Inv /\ UNCHANGED vars => Inv'
  BY DEF Inv, vars, TypeOK, Exact, Hits

THEOREM Safety == Spec => []Inv
  <1>1. Inv /\ [Next]_vars => Inv'
    BY AcceptedInv, RejectedInv, StutterInv DEF Next
  <1>. QED  BY InitInv, <1>1, PTL DEF Spec
=============================================================================
