----------------------------- MODULE MinMaxProof ----------------------------
EXTENDS MinMaxAlg, TLAPS

USE DEF Modes, WantMin, Skip, Assumptions, params, Idx, NotWorse, Better

LEMMA InitInv == Init => Inv
  BY DEF Init, Inv, TypeOK, ScanInv, Post, SeedOK, Designates

LEMMA SeedInv == Inv /\ Seed => Inv'
  BY DEF Inv, Seed, TypeOK, ScanInv, Post, SeedOK, Designates

LEMMA StepInv == Inv /\ Step => Inv'
  <1> SUFFICES ASSUME Inv, Step PROVE Inv'
    OBVIOUS
  <1> DEFINE e == r[pos + 1]
  <1>0. /\ TypeOK /\ ScanInv /\ pc = "Scan" /\ pos < N /\ pos' = pos + 1 /\ N' = N /\ r' = r /\ mode' = mode
        /\ pos + 1 \in Idx /\ e \in Nat /\ out = "none"
    BY DEF Inv, Step, TypeOK, ScanInv
  <1>a. CASE ~Skip /\ (e = 0 \/ r[cur + 1] = 0)
    <2>1. out' = "UndefinedOrder" /\ pc' = "done" /\ cur' = cur /\ have' = have
      BY <1>a DEF Step
    <2>2. \E x \in Idx : r[x] = 0
      BY <1>0, <1>a DEF ScanInv
    <2> QED BY <1>0, <1>a, <2>1, <2>2 DEF Inv, TypeOK, ScanInv, Post, SeedOK, Designates
  <1>b. CASE ~Skip /\ ~(e = 0 \/ r[cur + 1] = 0) /\ Better(e, r[cur + 1])
    <2>1. cur' = pos /\ have' = have /\ out' = out /\ pc' = pc
      BY <1>b DEF Step
    <2> QED BY <1>0, <1>b, <2>1 DEF Inv, TypeOK, ScanInv, Post, SeedOK, Designates
  <1>c. CASE ~Skip /\ ~(e = 0 \/ r[cur + 1] = 0) /\ ~Better(e, r[cur + 1])
    <2>1. cur' = cur /\ have' = have /\ out' = out /\ pc' = pc
      BY <1>c DEF Step
    <2> QED BY <1>0, <1>c, <2>1 DEF Inv, TypeOK, ScanInv, Post, SeedOK, Designates
  <1>d. CASE Skip /\ e = 0
    <2>1. cur' = cur /\ have' = have /\ out' = out /\ pc' = pc
      BY <1>d DEF Step
    <2> QED BY <1>0, <1>d, <2>1 DEF Inv, TypeOK, ScanInv, Post, SeedOK, Designates
  <1>e. CASE Skip /\ e # 0 /\ (~have \/ Better(e, r[cur + 1]))
    <2>1. cur' = pos /\ have' = TRUE /\ out' = out /\ pc' = pc
      BY <1>e DEF Step
    <2> QED BY <1>0, <1>e, <2>1 DEF Inv, TypeOK, ScanInv, Post, SeedOK, Designates
  <1>f. CASE Skip /\ e # 0 /\ ~(~have \/ Better(e, r[cur + 1]))
    <2>1. cur' = cur /\ have' = have /\ out' = out /\ pc' = pc
      BY <1>f DEF Step
    <2> QED BY <1>0, <1>f, <2>1 DEF Inv, TypeOK, ScanInv, Post, SeedOK, Designates
  <1> QED BY <1>a, <1>b, <1>c, <1>d, <1>e, <1>f

LEMMA FinishInv == Inv /\ Finish => Inv'
  BY DEF Inv, Finish, TypeOK, ScanInv, Post, SeedOK, Designates

LEMMA StutterInv == Inv /\ UNCHANGED vars => Inv'
  BY DEF Inv, vars, TypeOK, ScanInv, Post, SeedOK, Designates

THEOREM Safety == Spec => []Inv
  <1>1. Inv /\ [Next]_vars => Inv'
    BY SeedInv, StepInv, FinishInv, StutterInv DEF Next
  <1>. QED  BY InitInv, <1>1, PTL DEF Spec
=============================================================================
