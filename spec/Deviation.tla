----------------------------- MODULE Deviation -----------------------------
(***************************************************************************)
(* Laws of the deviation measures (deviation.rs) on the exact definitions: *)
(* symmetry, zero on identical arguments, count_eq + count_neq = n,        *)
(* and the transcription of count_neq as len - count_eq.                   *)
(***************************************************************************)
EXTENDS NumOps
CONSTANTS MaxN, MaxV
VARIABLES a, b, pc
vars == <<a, b, pc>>
Init == /\ \E n \in 1..MaxN : a \in [1..n -> 0..MaxV] /\ b \in [1..n -> 0..MaxV]
        /\ pc = "go"
Next == pc = "go" /\ pc' = "done" /\ UNCHANGED <<a, b>>
Spec == Init /\ [][Next]_vars
LawsOK ==
    /\ SqL2(a, b) = SqL2(b, a) /\ L1(a, b) = L1(b, a) /\ Linf(a, b) = Linf(b, a) /\ CountEq(a, b) = CountEq(b, a)
    /\ SqL2(a, a) = 0 /\ L1(a, a) = 0 /\ Linf(a, a) = 0 /\ CountEq(a, a) = Len(a)
    /\ CountEq(a, b) + Cardinality({x \in DOMAIN a : a[x] # b[x]}) = Len(a)
    /\ Linf(a, b) <= L1(a, b) /\ L1(a, b) <= SqL2(a, b) + Len(a)
    /\ (SqL2(a, b) = 0) <=> (a = b)
=============================================================================
