------------------------------ MODULE Summary ------------------------------
(***************************************************************************)
(* Algebra of the summary-statistics kernels (summary_statistics/means.rs) *)
(* over exact integers:                                                    *)
(*  - central moments: the code shifts the data by the *computed* mean c   *)
(*    (which differs from the true mean by a rounding error), takes raw    *)
(*    moments of the shifted data and recombines them with binomial        *)
(*    coefficients by Horner's rule (means.rs:283-345).  MomentAlgebraOK   *)
(*    states that the recombination is exact for every residual shift;     *)
(*  - West's incremental weighted variance (means.rs:248-269): loop        *)
(*    invariant s_k W_k = W_k SUM w r^2 - (SUM w r)^2, including zero      *)
(*    weights;                                                             *)
(*  - shift lemma: variance, central-moment and covariance numerators do   *)
(*    not change when a constant is added to the data (this is what lets   *)
(*    the conformance runs judge data with large offsets by small          *)
(*    integers).                                                           *)
(***************************************************************************)
EXTENDS NumOps

CONSTANTS MaxN, MaxR, MaxP,
          FixF5      \* TRUE: binomial(p, k) (repaired); FALSE: binomial(p+1, k) as in the pinned commit

VARIABLES r, w, C, D, pc
vars == <<r, w, C, D, pc>>

RECURSIVE Binom(_, _)
Binom(n, k) == IF k = 0 \/ k = n THEN 1 ELSE IF k > n THEN 0 ELSE Binom(n - 1, k - 1) + Binom(n - 1, k)

Init ==
    /\ \E n \in 1..MaxN : r \in [1..n -> 0..MaxR] /\ w \in [1..n -> 0..2]
    /\ D \in 1..3 /\ C \in 0..(MaxR * 3)          \* computed mean c = C / D: any rational near the data, not necessarily the true mean
    /\ pc = "go"
Next == pc = "go" /\ pc' = "done" /\ UNCHANGED <<r, w, C, D>>
Spec == Init /\ [][Next]_vars

n_ == Len(r)
Y(i) == D * r[i] - C                                         \* shifted datum y_i = Y_i / D
T(k) == SumSeq([i \in DOMAIN r |-> Pw(Y(i), k)])             \* raw moment m'_k = T_k / (n D^k)

(* coefficients used by central_moment_coefficients for order p *)
Coef(p, k) == IF FixF5 THEN Binom(p, k) ELSE Binom(p + 1, k)

(* SUM_i (n Y_i - T_1)^p  =  SUM_k coef_k T_{p-k} (-T_1)^k n^(p-k)   (both sides times n^(p+1) D^p) *)
MomentAlgebraOK ==
    \A p \in 2..MaxP :
        SumSeq([i \in DOMAIN r |-> Pw(n_ * Y(i) - T(1), p)])
          = SumSeq([k \in 1..(p + 1) |-> Coef(p, k - 1) * T(p - (k - 1)) * Pw(-T(1), k - 1) * Pw(n_, p - (k - 1))])

(* West's loop on prefixes: W, R = SUM w r, Q2 = SUM w r^2 after k elements; s_k = (W Q2 - R^2) / W *)
Wk(k) == SumSeq(SubSeq(w, 1, k))
Rk(k) == Dot2(SubSeq(r, 1, k), SubSeq(w, 1, k))
Nk(k) == Wk(k) * SumSq(SubSeq(r, 1, k), SubSeq(w, 1, k)) - Rk(k) * Rk(k)
WestOK ==
    \A k \in 1..n_ :
        IF Wk(k - 1) = 0
        THEN Nk(k) = 0                                            \* first element with positive weight: s stays 0 (zero weights before it must be skipped)
        ELSE Nk(k) * Wk(k - 1) = Nk(k - 1) * Wk(k) + w[k] * (r[k] * Wk(k - 1) - Rk(k - 1)) * (r[k] * Wk(k) - Rk(k))

(* shift lemma *)
Shift(s, c) == [i \in DOMAIN s |-> s[i] + c]
ShiftOK ==
    \A c \in 1..3 :
        /\ WVarNum(Shift(r, c), w) = WVarNum(r, w)
        /\ \A p \in 2..MaxP : Mp(Shift(r, c), p) = Mp(r, p)
        /\ CovNum(Shift(r, c), r) = CovNum(r, r)
=============================================================================
