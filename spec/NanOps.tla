------------------------------- MODULE NanOps ------------------------------
(***************************************************************************)
(* Constant-level operators for src/maybe_nan/mod.rs.                      *)
(*                                                                         *)
(* Memory model: a parent buffer is a sequence `mem' of integers (cell k   *)
(* is mem[k+1]); 0 is a missing value (NaN / None), any other integer is   *)
(* the identity of a non-missing element.  A 1-D view is a record          *)
(* [ptr, len, stride]: `ptr' is the cell of the logical first element,     *)
(* logical element t lives in cell ptr + t*stride (stride may be negative) *)
(***************************************************************************)
EXTENDS ViewOps

CONSTANT FixF3   \* TRUE: Option<T>::remove_nan_mut goes through cast_view_mut (repaired);
                 \* FALSE: from_shape_ptr(dim, as_ptr), i.e. unit stride (pinned commit)

IsMissing(x) == x = 0
Kept(s) == SelectSeq(s, LAMBDA x : ~IsMissing(x))

(* C04: remove_nan_mut on view `vin' of `before' returned view `vout' and  *)
(* left `after'.                                                           *)
RemoveNanLaneOK(before, vin, after, vout) ==
    /\ SameBag(VLane(before, vin), VLane(after, vin))               \* the lane is only permuted (C03)
    /\ vout.len = Len(Kept(VLane(before, vin)))                     \* length = number of non-missing
    /\ Injective(vout)
    /\ VAddrs(vout) \subseteq VAddrs(vin)                           \* aliases only memory of the input view
    /\ \A t \in 0..(vout.len - 1) : ~IsMissing(VElem(after, vout, t)) \* nothing handed out as not-NaN is missing
    /\ SameBag(VLane(after, vout), Kept(VLane(before, vin)))        \* exactly the non-missing elements

RemoveNanOK(before, vin, after, vout) ==
    /\ FrameOK(before, after, vin)                                 \* nothing outside the view is touched
    /\ RemoveNanLaneOK(before, vin, after, vout)

---------------------------------------------------------------------------
(* Functional transcription of the two-pointer compaction                  *)
(* (maybe_nan/mod.rs:46-71) on a lane (sequence); result <<lane', i>>.     *)
RECURSIVE RnScanI(_, _, _), RnScanJ(_, _, _), RnLoop(_, _, _)
RnScanI(s, i, j) == IF i <= j /\ ~IsMissing(At(s, i)) THEN RnScanI(s, i + 1, j) ELSE i
RnScanJ(s, i, j) == IF j > i /\ IsMissing(At(s, j)) THEN RnScanJ(s, i, j - 1) ELSE j
RnLoop(s, i, j) ==
    LET i2 == RnScanI(s, i, j)
        j2 == RnScanJ(s, i2, j)
    IN IF i2 >= j2 THEN <<s, i2>> ELSE RnLoop(Swap(s, i2, j2), i2 + 1, j2 - 1)
RemoveNanFn(s) == IF Len(s) = 0 THEN <<s, 0>> ELSE RnLoop(s, 0, Len(s) - 1)

(* cast_view_mut (maybe_nan/mod.rs:82-107) on a view [ptr, len, stride].   *)
Invert(v) == [v EXCEPT !.ptr = v.ptr + (v.len - 1) * v.stride, !.stride = -v.stride]
CastView(v) ==
    IF v.len <= 1 THEN [v EXCEPT !.stride = 0]                                  \* LenLe1
    ELSE IF v.stride >= 0 THEN v                                                \* NonNegStride
    ELSE Invert([ptr |-> v.ptr + (v.len - 1) * v.stride, len |-> v.len, stride |-> -v.stride])  \* NegStride

(* Option<T>::remove_nan_mut of the pinned commit (mod.rs:188-198): the    *)
(* view is rebuilt from dim() and as_ptr() alone, i.e. with unit stride.   *)
OptionRebuild(v) == [v EXCEPT !.stride = IF v.len <= 1 THEN 0 ELSE 1]

ReturnedView(kind, v) ==
    IF kind = "option" /\ ~FixF3 THEN OptionRebuild(v) ELSE CastView(v)
=============================================================================
