------------------------------ MODULE Prelude ------------------------------
(***************************************************************************)
(* Common operators of the ndarray-stats specification.                    *)
(*                                                                         *)
(* Arrays of the library are modelled as TLA+ sequences of integers.  The  *)
(* code is 0-based, TLA+ sequences are 1-based: `At', `Swap' and friends    *)
(* take 0-based "code" positions so that the actions of the other modules  *)
(* can be read next to the Rust source.                                    *)
(***************************************************************************)
EXTENDS Naturals, Integers, Sequences, FiniteSets, TLC

Min2(a, b) == IF a <= b THEN a ELSE b
Max2(a, b) == IF a >= b THEN a ELSE b
Abs(a) == IF a < 0 THEN -a ELSE a

RangeOf(s) == {s[k] : k \in DOMAIN s}

At(a, k) == a[k + 1]
Swap(a, x, y) == [a EXCEPT ![x + 1] = a[y + 1], ![y + 1] = a[x + 1]]

(* Multiset view of a sequence. *)
CountIn(s, v)   == Cardinality({k \in DOMAIN s : s[k] = v})
CountLess(s, v) == Cardinality({k \in DOMAIN s : s[k] < v})
CountLeq(s, v)  == Cardinality({k \in DOMAIN s : s[k] <= v})
SameBag(s, t) ==
    /\ Len(s) = Len(t)
    /\ \A v \in RangeOf(s) \cup RangeOf(t) : CountIn(s, v) = CountIn(t, v)

(* The element a full sort would place at 0-based position k, defined      *)
(* without sorting: the unique value v with #{x < v} <= k < #{x <= v}.      *)
SortedAt(s, k) ==
    CHOOSE v \in RangeOf(s) : CountLess(s, v) <= k /\ k < CountLeq(s, v)

IsSortedStrict(s) == \A a, b \in DOMAIN s : a < b => s[a] < s[b]
IsSortedWeak(s)   == \A a, b \in DOMAIN s : a < b => s[a] <= s[b]

(* Sorted sequence of the distinct members of a finite set of integers.    *)
RECURSIVE SetToSortedSeq(_)
SetToSortedSeq(S) ==
    IF S = {} THEN <<>>
    ELSE LET m == CHOOSE x \in S : \A y \in S : x <= y
         IN <<m>> \o SetToSortedSeq(S \ {m})

(* Canonical weak-order patterns of length n: sequences over 1..k that use *)
(* every value of 1..k.  A comparison-only routine behaves identically on  *)
(* any two arrays with the same pattern, so enumerating the patterns of    *)
(* length <= N is a complete exploration up to that length.                *)
Patterns(n) ==
    IF n = 0 THEN {<<>>}
    ELSE {s \in [1..n -> 1..n] : RangeOf(s) = 1..Cardinality(RangeOf(s))}

(* Sub-window [lo, hi) (0-based, half open) of a sequence and write-back.  *)
Window(a, lo, hi) == SubSeq(a, lo + 1, hi)
Splice(a, lo, w) ==
    [k \in DOMAIN a |-> IF k > lo /\ k <= lo + Len(w) THEN w[k - lo] ELSE a[k]]

(* Rust integer division truncates towards zero; TLA+ \div floors.         *)
TruncDiv(a, b) ==
    IF (a >= 0 /\ b > 0) \/ (a <= 0 /\ b < 0) THEN Abs(a) \div Abs(b)
    ELSE -(Abs(a) \div Abs(b))

(* A witness of "b is a rearrangement of a" computed without search: the j-th occurrence of a value in b is matched with *)
(* the j-th occurrence of that value in a (0-based function on positions).  Where a and b agree outside a window and hold *)
(* the same bag inside it, the witness is the identity outside the window and maps the window into itself.                *)
OccCount(s, v, upto) == Cardinality({k \in 1..upto : s[k] = v})
NthOcc(s, v, j) == CHOOSE k \in DOMAIN s : s[k] = v /\ OccCount(s, v, k) = j
MatchPerm(a, b) == [x \in 0..(Len(b) - 1) |-> NthOcc(a, b[x + 1], OccCount(b, b[x + 1], x + 1)) - 1]

SumSeq(s) ==
    LET RECURSIVE S(_)
        S(k) == IF k = 0 THEN 0 ELSE s[k] + S(k - 1)
    IN S(Len(s))

=============================================================================
