----------------------------- MODULE Trace_Misc ----------------------------
(***************************************************************************)
(* The small public surface around the main routines:                      *)
(*  - NotNone<T> is a transparent wrapper: every operator, comparison and  *)
(*    conversion is the one of T (a homomorphism), with T = i32 as a 32-bit *)
(*    two's complement machine integer (overflow and division by zero       *)
(*    panic in the dev build used here);                                   *)
(*  - the MaybeNan conversions round-trip (missing <-> None / NaN);         *)
(*  - the error conversions map variants as documented.                    *)
(***************************************************************************)
EXTENDS Prelude, TraceBase
VARIABLE l

IMin == -2147483647 - 1
IMax == 2147483647
Fits(x) == IMin <= x /\ x <= IMax
TruncRem(a, b) == a - b * TruncDiv(a, b)
Sgn(x) == IF x < 0 THEN -1 ELSE IF x = 0 THEN 0 ELSE 1

(* result of a checked machine operation: <<ok, value>> *)
OpOK(r, defined, v) == IF defined THEN r.ok /\ r.v = v ELSE ~r.ok

(* products of extremes exceed TLC's 32-bit integers: decide representability without forming them *)
MulFits(a, b) == a = 0 \/ b = 0 \/ (Abs(a) <= 46340 /\ Abs(b) <= 46340) \/ (Abs(a) = 1 /\ Fits(-b) ) \/ (Abs(b) = 1 /\ Fits(-a))
MulKnown(a, b) == a = 0 \/ b = 0 \/ (Abs(a) <= 46340 /\ Abs(b) <= 46340) \/ Abs(a) = 1 \/ Abs(b) = 1

NotNoneOK(e) ==
    LET a == e.a  b == e.b IN
    /\ (Abs(a) < 1000000 /\ Abs(b) < 1000000) => OpOK(e.add, Fits(a + b), a + b) /\ OpOK(e.sub, Fits(a - b), a - b)
    /\ (Abs(a) <= 20000 /\ Abs(b) <= 20000) => OpOK(e.mul, TRUE, a * b)
    /\ (b # 0 /\ ~(a = IMin /\ b = -1)) => OpOK(e.div, TRUE, TruncDiv(a, b)) /\ OpOK(e.rem, TRUE, TruncRem(a, b))
    /\ b = 0 => ~e.div.ok /\ ~e.rem.ok
    /\ e.eq = (a = b) /\ e.lt = (a < b) /\ e.le = (a <= b) /\ e.gt = (a > b) /\ e.ge = (a >= b)
    /\ e.cmp = (IF a < b THEN -1 ELSE IF a = b THEN 0 ELSE 1) /\ e.pcmp = e.cmp
    /\ e.deref = a /\ e.unwrap = a /\ e.inner = a
    /\ a < IMax => e.map = a + 1
    /\ e.to_i64 = a /\ e.from_i64 = a
    /\ e.to_u8 = (IF 0 <= a /\ a <= 255 THEN a ELSE -1)
    /\ Abs(a) < 100000 => e.to_f64x4 = 4 * a /\ e.from_f64 = (IF a >= 0 THEN a ELSE a + 1)      \* from_f64(a + 0.75) truncates towards zero
    /\ e.try_new_some /\ e.try_new_none /\ e.display

MaybeNanOK(e) ==
    LET miss == e.v = 0 IN
    /\ e.o_is_nan = miss /\ e.f_is_nan = miss
    /\ e.o_try = e.v /\ e.f_try = e.v
    /\ e.o_from = 7
    /\ e.o_from_opt = e.v /\ e.o_from_ref = e.v
    /\ e.f_from_opt = e.v /\ e.f_from_ref = e.v

ErrConvOK(e) ==
    /\ e.minmax_from_empty /\ e.quantile_from_empty /\ e.multi_from_empty /\ e.multi_from_shape
    /\ e.bins_from_empty /\ e.bins_from_minmax_empty /\ e.bins_from_undefined
    /\ e.display_empty /\ e.display_shape

EventOK(e) ==
    CASE e.ev = "notnone"  -> NotNoneOK(e)
      [] e.ev = "maybenan" -> MaybeNanOK(e)
      [] e.ev = "errconv"  -> ErrConvOK(e)
      [] OTHER -> FALSE

Init == l = 1
Next == /\ l <= Len(Rec)
        /\ (IF EventOK(Rec[l]) THEN TRUE ELSE MarkBad(l))
        /\ l' = l + 1
Spec == Init /\ [][Next]_l
=============================================================================
