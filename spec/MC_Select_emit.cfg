SPECIFICATION Spec
CONSTANTS
  FixF1 = TRUE
  FixF2 = TRUE
  N = 4
  NMin = 0
  OutOfRange = TRUE
  Emit = TRUE
INVARIANTS DoneOK PanicIffOutOfRange EmitInv
CHECK_DEADLOCK FALSE
