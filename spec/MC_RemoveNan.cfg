SPECIFICATION Spec
CONSTANTS
  FixF3 = TRUE
  MaxLen = 6
  MaxStride = 3
  Offsets = {0, 2}
  Kinds = {"float", "option"}
  Emit = FALSE
INVARIANTS CursorInv LoopInv FrameInv DoneOK TwinOK IdempotentOK
PROPERTY Terminates
CHECK_DEADLOCK FALSE
