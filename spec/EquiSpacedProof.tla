--------------------------- MODULE EquiSpacedProof --------------------------
EXTENDS EquiSpacedAlg, NaturalsInduction, TLAPS

LEMMA InitInv == Init => Inv
  BY DEF Init, Inv, TypeOK, LoopInv, Post, Assumptions

LEMMA StepInv == Inv /\ CountStep => Inv'
  <1> SUFFICES ASSUME Inv, CountStep PROVE Inv'
    OBVIOUS
  <1>0. mn \in Int /\ mx \in Int /\ w \in Int /\ mn < mx /\ w > 0 /\ edge \in Int /\ n \in Nat /\ edge = mn + n * w
        /\ mn' = mn /\ mx' = mx /\ w' = w /\ (n >= 1 => mn + (n - 1) * w <= mx) /\ pc = "count"
    BY DEF Inv, TypeOK, LoopInv, Assumptions, CountStep, params
  <1>1. (n + 1) * w = n * w + w /\ n * w \in Int
    BY <1>0
  <1>2. n >= 1 => (n - 1) * w = n * w - w
    BY <1>0
  <1>a. CASE edge <= mx
    <2>1. n' = n + 1 /\ edge' = mn + (n + 1) * w /\ pc' = pc
      BY <1>a DEF CountStep
    <2>2. (n' - 1) * w = n * w
      BY <2>1, <1>0
    <2> QED BY <1>0, <1>1, <2>1, <2>2, <1>a DEF Inv, TypeOK, LoopInv, Post, Assumptions
  <1>b. CASE ~(edge <= mx)
    <2>1. pc' = "build" /\ n' = n /\ edge' = edge
      BY <1>b DEF CountStep
    <2>2. n >= 1
      BY <1>0, <1>b
    <2> QED BY <1>0, <1>1, <1>2, <2>1, <2>2, <1>b DEF Inv, TypeOK, LoopInv, Post, Assumptions
  <1> QED BY <1>a, <1>b

LEMMA StutterInv == Inv /\ UNCHANGED vars => Inv'
  BY DEF Inv, vars, TypeOK, LoopInv, Post, Assumptions

THEOREM Safety == Spec => []Inv
  <1>1. Inv /\ [Next]_vars => Inv'
    BY StepInv, StutterInv DEF Next
  <1>. QED  BY InitInv, <1>1, PTL DEF Spec

(* every value of [min, max] falls into one of the n bins [min + k w, min + (k+1) w): by induction on the number of bins *)
THEOREM Cover ==
    ASSUME NEW a \in Int, NEW c \in Int, c > 0
    PROVE  \A m \in Nat : \A v \in Int : (a <= v /\ v < a + m * c) => \E k \in 0 .. (m - 1) : a + k * c <= v /\ v < a + (k + 1) * c
  <1> DEFINE P(m) == \A v \in Int : (a <= v /\ v < a + m * c) => \E k \in 0 .. (m - 1) : a + k * c <= v /\ v < a + (k + 1) * c
  <1>1. P(0)
    OBVIOUS
  <1>2. ASSUME NEW m \in Nat, P(m) PROVE P(m + 1)
    <2> SUFFICES ASSUME NEW v \in Int, a <= v, v < a + (m + 1) * c
                 PROVE \E k \in 0 .. ((m + 1) - 1) : a + k * c <= v /\ v < a + (k + 1) * c
      OBVIOUS
    <2>1. (m + 1) * c = m * c + c /\ m * c \in Int
      OBVIOUS
    <2>a. CASE v < a + m * c
      <3>1. PICK k \in 0 .. (m - 1) : a + k * c <= v /\ v < a + (k + 1) * c
        BY <1>2, <2>a
      <3> QED BY <3>1
    <2>b. CASE ~(v < a + m * c)
      <3>1. m \in 0 .. ((m + 1) - 1) /\ a + m * c <= v /\ v < a + (m + 1) * c
        BY <2>b, <2>1
      <3> QED BY <3>1
    <2> QED BY <2>a, <2>b
  <1>3. \A m \in Nat : P(m)
    <2> HIDE DEF P
    <2> QED BY <1>1, <1>2, NatInduction
  <1> QED BY <1>3
=============================================================================
