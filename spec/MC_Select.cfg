SPECIFICATION Spec
CONSTANTS
  FixF1 = TRUE
  FixF2 = TRUE
  N = 5
  NMin = 0
  OutOfRange = TRUE
  Emit = FALSE
INVARIANTS TypeOK BagInv SandwichInv WantInv DoneOK PanicIffOutOfRange
PROPERTY Terminates
VIEW view
CHECK_DEADLOCK FALSE
