------------------------------ MODULE HistOps ------------------------------
(***************************************************************************)
(* Constant-level specification of src/histogram: Edges, Bins, Grid,       *)
(* Histogram counts, equi-spaced bin construction.  Edge values, points    *)
(* and data are integers (comparison-only code: any strictly increasing    *)
(* relabelling of the real values gives the same behaviour).               *)
(***************************************************************************)
EXTENDS Prelude

NONE == -1

(* Edges::from (bins.rs:66-72): the distinct values in strictly increasing order. *)
EdgesFrom(input) == SetToSortedSeq(RangeOf(input))

(* Abstract lookup (C13): the bin i (0-based) with e[i] <= v < e[i+1], NONE otherwise. *)
BinOf(e, v) ==
    IF \E x \in 1..(Len(e) - 1) : e[x] <= v /\ v < e[x + 1]
    THEN (CHOOSE x \in 1..(Len(e) - 1) : e[x] <= v /\ v < e[x + 1]) - 1
    ELSE NONE

(* Transcription of Edges::indices_of (bins.rs:217-229): the five-way match on the binary-search outcome. *)
IndicesOfImpl(e, v) ==
    LET n == Len(e) IN
    IF \E x \in DOMAIN e : e[x] = v
    THEN LET pos == (CHOOSE x \in DOMAIN e : e[x] = v) - 1          \* Ok(i)
         IN IF pos = n - 1 THEN NONE ELSE pos
    ELSE LET ins == Cardinality({x \in DOMAIN e : e[x] < v})         \* Err(i)
         IN IF ins = 0 THEN NONE ELSE IF ins = n THEN NONE ELSE ins - 1

BinsLen(e) == IF Len(e) = 0 THEN 0 ELSE Len(e) - 1
BinRange(e, x) == <<e[x + 1], e[x + 2]>>                         \* Bins::index(x), 0-based

(* Grid: sequence of edge sequences, one per axis. *)
GridShape(axes) == [a \in DOMAIN axes |-> BinsLen(axes[a])]
GridIndexOf(axes, pt) ==       \* sequence of per-axis bins, or <<NONE>> if any coordinate is outside
    IF \E a \in DOMAIN axes : BinOf(axes[a], pt[a]) = NONE THEN <<NONE>>
    ELSE [a \in DOMAIN axes |-> BinOf(axes[a], pt[a])]

ShapeProd(sh) == LET RECURSIVE P(_)
                     P(k) == IF k = 0 THEN 1 ELSE sh[k] * P(k - 1)
                 IN P(Len(sh))
RECURSIVE FlatRec(_, _, _)
FlatRec(sh, idx, k) == IF k = 0 THEN 0 ELSE FlatRec(sh, idx, k - 1) * sh[k] + idx[k]
Flat(sh, idx) == FlatRec(sh, idx, Len(sh))          \* row-major position of index tuple idx

(* C11: counts (flat, row-major) a histogram over `axes' must hold after the observations `pts' (a sequence of points). *)
InGrid(axes, pt) == GridIndexOf(axes, pt) # <<NONE>>
CountsOf(axes, pts) ==
    LET sh == GridShape(axes) IN
    [c \in 1..ShapeProd(sh) |->
        Cardinality({x \in DOMAIN pts : InGrid(axes, pts[x]) /\ Flat(sh, GridIndexOf(axes, pts[x])) = c - 1})]

---------------------------------------------------------------------------
(* C12: bins built by a strategy over data with minimum mn and maximum mx. *)
(* e: the edges built (strictly increasing).                               *)
CoverOK(e, mn, mx) ==
    /\ Len(e) >= 2
    /\ e[1] = mn                                  \* start exactly at the minimum
    /\ e[Len(e)] > mx                             \* end strictly above the maximum ...
    /\ e[Len(e) - 1] <= mx                        \* ... by at most one bin width
EqualWidth(e) == \A x \in 1..(Len(e) - 2) : e[x + 1] - e[x] = e[x + 2] - e[x + 1]

(* Documented bin counts of the data-size strategies (strategies.rs:270-335), in exact integer form:  *)
(*   Sqrt     k = round(sqrt n)        <=>  (2k-1)^2 <= 4n  < (2k+1)^2                                  *)
(*   Rice     k = round(2 n^(1/3))     <=>  (2k-1)^3 <= 64n < (2k+1)^3                                  *)
(*   Sturges  k = round(log2 n) + 1    <=>  2^(2(k-1)-1) <= n^2 < 2^(2(k-1)+1)                          *)
(* (none of the three has ties for integer n).  For integer data the width is the truncating quotient  *)
(* (max - min) / k and the bins built are min + i * width up to the first edge above max.              *)
RECURSIVE P2(_)
P2(k) == IF k <= 0 THEN 1 ELSE 2 * P2(k - 1)
SqrtK(n)    == CHOOSE k \in 0..(n + 1) : (2 * k - 1) * (2 * k - 1) <= 4 * n /\ 4 * n < (2 * k + 1) * (2 * k + 1)
RiceK(n)    == CHOOSE k \in 0..(n + 2) : (2 * k - 1) * (2 * k - 1) * (2 * k - 1) <= 64 * n /\ 64 * n < (2 * k + 1) * (2 * k + 1) * (2 * k + 1)
SturgesK(n) == 1 + (CHOOSE j \in 0..31 : (IF j = 0 THEN n * n < 2 ELSE P2(2 * j - 1) <= n * n /\ n * n < P2(2 * j + 1)))
StrategyK(strat, n) == CASE strat = "sqrt" -> SqrtK(n) [] strat = "rice" -> RiceK(n) [] strat = "sturges" -> SturgesK(n) [] OTHER -> 0
IntEdges(mn, mx, w) == [x \in 1..((mx - mn) \div w + 2) |-> mn + (x - 1) * w]
=============================================================================
