------------------------------- MODULE NumOps ------------------------------
(***************************************************************************)
(* Exact (rational) definitions of the summary statistics, correlation,    *)
(* deviation and entropy routines, in integer arithmetic.                  *)
(*                                                                         *)
(* Conventions.  Data are integers r_i standing for the real values        *)
(* x_i = base + r_i/S (S = 1 for integer element types, 4 for floats, so   *)
(* every x_i is exactly representable); weights w_i stand for w_i/WS.      *)
(* A floating-point result `res' is observed as resQ = round(res * 2^QE)   *)
(* (after subtracting `base' where the statistic is shift-equivariant);    *)
(* every check has the cross-multiplied form                               *)
(*        |resQ * DEN - NUM * Q| <= TOL * DEN                               *)
(* i.e. "res = NUM/DEN up to TOL quanta of 2^-QE".  TLC raises an error    *)
(* on 32-bit overflow (it never wraps); the drivers keep the operands      *)
(* small enough.                                                           *)
(***************************************************************************)
EXTENDS Prelude

RECURSIVE Pw(_, _)
Pw(b, e) == IF e = 0 THEN 1 ELSE b * Pw(b, e - 1)
Q(qe) == Pw(2, qe)

Sum(s)       == SumSeq(s)
Dot2(a, b)   == SumSeq([x \in DOMAIN a |-> a[x] * b[x]])
SumSq(a, w)  == SumSeq([x \in DOMAIN a |-> w[x] * a[x] * a[x]])
Ones(n)      == [x \in 1..n |-> 1]
MaxSeq(s)    == CHOOSE v \in RangeOf(s) : \A u \in RangeOf(s) : v >= u

(* den > 0.  A logged result so large that resq * den leaves TLC's 32-bit integers cannot be close to an expected value that *)
(* was computed without overflow: it is rejected instead of making the evaluation fail.                                  *)
Close(resq, num, den, q, tol) ==
    IF Abs(resq) > 2147483647 \div den THEN FALSE
    ELSE LET x == resq * den  y == num * q  t == tol * den IN
         \* of opposite signs: |x - y| = |x| + |y| (and the difference itself may leave 32 bits)
         IF (x > 0 /\ y < 0) \/ (x < 0 /\ y > 0) THEN Abs(x) <= t /\ Abs(y) <= t /\ Abs(x - y) <= t
         ELSE Abs(x - y) <= t

(* ---- C06 ---- *)
MeanOK(r, S, resq, qe, tol)        == Close(resq, Sum(r), S * Len(r), Q(qe), tol)
MeanIntOK(r, res)                  == res = TruncDiv(Sum(r), Len(r))
WSumOK(r, w, S, WS, resq, qe, tol) == Close(resq, Dot2(r, w), S * WS, Q(qe), tol)
WSumIntOK(r, w, res)               == res = Dot2(r, w)
WMeanOK(r, w, S, resq, qe, tol)    == Sum(w) > 0 /\ Close(resq, Dot2(r, w), S * Sum(w), Q(qe), tol)
WMeanIntOK(r, w, res)              == res = TruncDiv(Dot2(r, w), Sum(w))
HL == 840                                                            \* lcm(1..8): data of harmonic_mean are integers 1..8
HarmonicOK(r, resq, qe, tol)       == LET D == SumSeq([x \in DOMAIN r |-> HL \div r[x]]) IN Close(resq, Len(r) * HL, D, Q(qe), tol)
GeometricOK(e, lgq, qe, tol)       == Close(lgq, Sum(e), Len(e), Q(qe), tol)      \* data 2^e_i, lgq = round(log2(res) * 2^qe)

(* ---- C07 ---- *)
(* weighted variance with ddof = d/2:  2 (W SUM w r^2 - (SUM w r)^2) / (S^2 W (2W - d WS)) *)
WVarNum(r, w) == Sum(w) * SumSq(r, w) - Dot2(r, w) * Dot2(r, w)
WVarOK(r, w, S, WS, d, resq, qe, tol) ==
    LET W == Sum(w) IN W > 0 /\ 2 * W - d * WS > 0 /\
    Close(resq, 2 * WVarNum(r, w), S * S * W * (2 * W - d * WS), Q(qe), tol)
(* M_p = SUM (n r_i - R)^p ;  central moment mu_p = M_p / (S^p n^(p+1)) *)
Mp(r, p) == LET n == Len(r)  R == Sum(r) IN SumSeq([x \in DOMAIN r |-> Pw(n * r[x] - R, p)])
MomentOK(r, S, p, resq, qe, tol) == Close(resq, Mp(r, p), Pw(S, p) * Pw(Len(r), p + 1), Q(qe), tol)
(* skewness^2 = n M3^2 / M2^3 with the sign of M3; kurtosis = n M4 / M2^2 *)
SkewOK(r, sk2q, sgn, qe, tol) ==
    LET m2 == Mp(r, 2)  m3 == Mp(r, 3) IN
    /\ m2 > 0
    /\ Close(sk2q, Len(r) * m3 * m3, m2 * m2 * m2, Q(qe), tol)
    /\ (m3 > 0 => sgn >= 0) /\ (m3 < 0 => sgn <= 0)
KurtOK(r, kq, qe, tol) == LET m2 == Mp(r, 2) IN m2 > 0 /\ Close(kq, Len(r) * Mp(r, 4), m2 * m2, Q(qe), tol)

(* ---- C08: rows = variables, n observations each; ddof = d/2 ---- *)
CovNum(ri, rj) == LET n == Len(ri)  Ri == Sum(ri)  Rj == Sum(rj)
                  IN SumSeq([k \in DOMAIN ri |-> (n * ri[k] - Ri) * (n * rj[k] - Rj)])
CovOK(ri, rj, S, d, resq, qe, tol) ==
    LET n == Len(ri) IN 2 * n - d > 0 /\ Close(resq, 2 * CovNum(ri, rj), S * S * n * n * (2 * n - d), Q(qe), tol)
(* r^2 N_ii N_jj = N_ij^2 and sign(r) = sign(N_ij); one quantum in r moves r^2 by about 2|r| quanta *)
PearsonOK(ri, rj, rq, qe, tol) ==
    LET nii == CovNum(ri, ri)  njj == CovNum(rj, rj)  nij == CovNum(ri, rj)  q == Q(qe) IN
    /\ nii > 0 /\ njj > 0
    /\ Abs(rq) <= q + tol                                                                 \* first: bounds the products below
    /\ Abs(rq * rq * (nii * njj) - nij * nij * q * q) <= (2 * Abs(rq) + 1) * tol * (nii * njj)
    /\ (nij > 0 => rq >= 0) /\ (nij < 0 => rq <= 0)

(* ---- C09 ---- *)
Diff(a, b)   == [x \in DOMAIN a |-> a[x] - b[x]]
SqL2(a, b)   == SumSeq([x \in DOMAIN a |-> (a[x] - b[x]) * (a[x] - b[x])])
L1(a, b)     == SumSeq([x \in DOMAIN a |-> Abs(a[x] - b[x])])
Linf(a, b)   == IF Len(a) = 0 THEN 0 ELSE MaxSeq([x \in DOMAIN a |-> Abs(a[x] - b[x])])
CountEq(a, b) == Cardinality({x \in DOMAIN a : a[x] = b[x]})

(* ---- C10: dyadic probabilities a_i / 2^m; LnT[k] = round(ln(k) * 2^20) ---- *)
LnT == <<0, 726817, 1151978, 1453635, 1687618, 1878796, 2040435, 2180452, 2303957, 2414435, 2514375, 2605613, 2689544, 2767252, 2839596, 2907270, 2970840, 3030774, 3087468, 3141253, 3192413, 3241193, 3287804, 3332431, 3375236, 3416362, 3455935, 3494070, 3530866, 3566414, 3600797, 3634087>>     \* k = 1..32
(* SUM a_i (LnT[a_i] - m LnT[2]) in units of 2^-20 / 2^m: minus the entropy of p = a / 2^m *)
PLnP(a, m) == SumSeq([x \in DOMAIN a |-> IF a[x] = 0 THEN 0 ELSE a[x] * (LnT[a[x]] - m * LnT[2])])
PLnQ(a, b, m) == SumSeq([x \in DOMAIN a |-> IF a[x] = 0 THEN 0 ELSE a[x] * (LnT[b[x]] - m * LnT[2])])
(* the same with q_i = b_i / 2^(m + bx_i) *)
PLnQx(a, b, m, bx) == SumSeq([x \in DOMAIN a |-> IF a[x] = 0 THEN 0 ELSE a[x] * (LnT[b[x]] - (m + bx[x]) * LnT[2])])
=============================================================================
