------------------------------ MODULE Quantile -----------------------------
(***************************************************************************)
(* State machine of `quantiles_axis_mut' on one lane                        *)
(* (src/quantile/mod.rs:448-497) over a W-bit machine integer type:        *)
(* CheckQs, CheckAxisLen, CollectIndexes, Select, Interpolate.  The         *)
(* single-q routines are *defined* through the bulk one, as in the code    *)
(* (mod.rs:503-517, 632-655).                                              *)
(*                                                                         *)
(* `Select' uses the abstract result of bulk selection (SortedAt); that    *)
(* the Bulk state machine delivers it under every pivot sequence is what   *)
(* MC_Bulk establishes.                                                    *)
(*                                                                         *)
(* Requests are rationals a/b from a grid (including invalid ones);        *)
(* positions are computed exactly.                                         *)
(***************************************************************************)
EXTENDS QuantOps, Json

CONSTANTS W,          \* bit width of the element type
          Signed,     \* TRUE: two's complement -2^(W-1)..2^(W-1)-1, FALSE: 0..2^W-1
          MaxLen,     \* lane lengths 0..MaxLen
          ValueMode,  \* "full": every value of the type; "spaced": extremes, zero and a few values between
          Dens,       \* denominators of the q grid
          MaxReq,     \* maximal length of the request list
          Strats,     \* strategies explored
          AllowF6,    \* TRUE: the known signed-overflow defect of Midpoint/Linear (F6) is tolerated
          Emit

VARIABLES lane, qs, strat,   \* inputs: lane values, request list of <<a, b>>, strategy
          pc,                \* "CheckQs" | "CheckLen" | "Collect" | "Select" | "Interp" | "done"
          searched, found, res, outcome

vars == <<lane, qs, strat, pc, searched, found, res, outcome>>

RECURSIVE Pow2(_)
Pow2(n) == IF n = 0 THEN 1 ELSE 2 * Pow2(n - 1)
TMin == IF Signed THEN -Pow2(W - 1) ELSE 0
TMax == IF Signed THEN Pow2(W - 1) - 1 ELSE Pow2(W) - 1
Fits(x) == TMin <= x /\ x <= TMax
OVF == 99999     \* result marker: arithmetic overflow (panic in dev builds, wrapped value in release builds)
Values == IF ValueMode = "full" THEN TMin..TMax
          ELSE IF Signed THEN {TMin, TMin + 5, 0, 2, TMax} ELSE {0, 3, TMax - 7, TMax}

QGrid == {<<a, b>> : a \in -1..(1 + CHOOSE m \in Dens : \A d \in Dens : m >= d), b \in Dens}
Valid(q) == 0 <= q[1] /\ q[1] <= q[2]
QSet == {q \in QGrid : q[1] <= q[2] + 1}

(* Exact position record for request q on a lane of length n (no rounding ambiguity in the model). *)
QI(q, n) ==
    LET pn == (n - 1) * q[1]  fr == pn % q[2] IN
    [k |-> pn \div q[2], int |-> fr = 0, hc |-> IF 2 * fr < q[2] THEN -1 ELSE IF 2 * fr = q[2] THEN 0 ELSE 1,
     up |-> FALSE, dn |-> FALSE, half |-> FALSE, a |-> q[1], b |-> q[2], u |-> 0]

Init ==
    /\ \E n \in 0..MaxLen : lane \in [1..n -> Values]
    /\ \E m \in 0..MaxReq : qs \in [1..m -> QSet]
    /\ strat \in Strats
    /\ pc = "CheckQs" /\ searched = <<>> /\ found = <<>> /\ res = <<>> /\ outcome = "none"

(* mod.rs:448-452: the first q outside [0,1] is reported, before anything else. *)
CheckQs ==
    /\ pc = "CheckQs"
    /\ IF \E x \in DOMAIN qs : ~Valid(qs[x])
       THEN /\ outcome' = "InvalidQuantile"
            /\ res' = <<CHOOSE x \in DOMAIN qs : ~Valid(qs[x]) /\ \A y \in DOMAIN qs : y < x => Valid(qs[y])>>   \* index of the offending q
            /\ pc' = "done"
       ELSE pc' = "CheckLen" /\ UNCHANGED <<outcome, res>>
    /\ UNCHANGED <<lane, qs, strat, searched, found>>

(* mod.rs:454-457 *)
CheckLen ==
    /\ pc = "CheckLen"
    /\ IF Len(lane) = 0 THEN outcome' = "EmptyInput" /\ pc' = "done" ELSE pc' = "Collect" /\ UNCHANGED outcome
    /\ UNCHANGED <<lane, qs, strat, searched, found, res>>

(* mod.rs:459-475: an empty request list gives an empty result; otherwise sort + dedup of the needed indexes *)
Collect ==
    /\ pc = "Collect"
    /\ IF Len(qs) = 0 THEN outcome' = "ok" /\ pc' = "done" /\ UNCHANGED searched
       ELSE /\ searched' = SearchedIndexes(strat, [x \in DOMAIN qs |-> QI(qs[x], Len(lane))])
            /\ pc' = "Select" /\ UNCHANGED outcome
    /\ UNCHANGED <<lane, qs, strat, found, res>>

(* mod.rs:481-482: bulk selection of the searched indexes (all in range by construction: checked) *)
Select ==
    /\ pc = "Select"
    /\ found' = [x \in DOMAIN searched |-> S(lane, searched[x])]
    /\ pc' = "Interp"
    /\ UNCHANGED <<lane, qs, strat, searched, res, outcome>>

Lookup(idx) == found[CHOOSE x \in DOMAIN searched : searched[x] = idx]

(* interpolate.rs on a W-bit type: the intermediate `higher - lower' may overflow for signed types (F6) *)
InterpW(qi) ==
    LET lo == IF NeedsLower(strat, qi) THEN Lookup(LowerIdx(qi)) ELSE 0
        hi == IF NeedsHigher(strat, qi) THEN Lookup(HigherIdx(qi)) ELSE 0
    IN IF strat \in {"midpoint"} /\ ~Fits(hi - lo) THEN OVF
       ELSE IF strat = "linear" /\ ~Fits(TruncDiv(((Len(lane) - 1) * qi.a % qi.b) * (hi - lo), qi.b)) THEN OVF
       ELSE InterpolateInt(strat, lo, hi, qi, Len(lane))

(* mod.rs:483-495 *)
Interp ==
    /\ pc = "Interp"
    /\ res' = [x \in DOMAIN qs |-> InterpW(QI(qs[x], Len(lane)))]
    /\ outcome' = IF \E x \in DOMAIN qs : InterpW(QI(qs[x], Len(lane))) = OVF THEN "overflow" ELSE "ok"
    /\ pc' = "done"
    /\ UNCHANGED <<lane, qs, strat, searched, found>>

Next == CheckQs \/ CheckLen \/ Collect \/ Select \/ Interp
Spec == Init /\ [][Next]_vars /\ WF_vars(Next)

---------------------------------------------------------------------------
AllValid == \A x \in DOMAIN qs : Valid(qs[x])

(* every searched index is in range and the list is strictly increasing (precondition of the unchecked bulk selection) *)
SearchedOK ==
    pc \in {"Select", "Interp"} => /\ IsSortedStrict(searched)
                                   /\ \A x \in DOMAIN searched : 0 <= searched[x] /\ searched[x] < Len(lane)

(* C17 precedence: invalid q before emptiness; exactly the documented outcome *)
OutcomeOK ==
    pc = "done" =>
        /\ outcome = "InvalidQuantile" <=> ~AllValid
        /\ outcome = "EmptyInput" <=> (AllValid /\ Len(lane) = 0)
        /\ outcome \in {"ok", "overflow"} <=> (AllValid /\ Len(lane) > 0)

(* the value is representable iff it lies in [lo, hi], which always fits; the intermediate may not *)
F6Case(qi) ==
    Signed /\ strat \in {"midpoint", "linear"} /\ ~Fits(S(lane, HigherIdx(qi)) - S(lane, LowerIdx(qi)))

(* C01 *)
ValuesOK ==
    (pc = "done" /\ outcome \in {"ok", "overflow"}) =>
        /\ Len(res) = Len(qs)
        /\ \A x \in DOMAIN qs :
              LET qi == QI(qs[x], Len(lane)) IN
              IF res[x] = OVF THEN AllowF6 /\ F6Case(qi)
              ELSE QuantileValueOK(lane, qi, strat, res[x], FALSE) /\ Fits(res[x])

(* C18: the j-th entry of the bulk result is the single-q result (the single form is the bulk form on a one-element list) *)
SingleRes(q) ==
    LET qi == QI(q, Len(lane))
        lo == S(lane, LowerIdx(qi))  hi == S(lane, HigherIdx(qi))
    IN IF strat = "midpoint" /\ ~Fits(hi - lo) THEN OVF
       ELSE IF strat = "linear" /\ ~Fits(TruncDiv(((Len(lane) - 1) * qi.a % qi.b) * (hi - lo), qi.b)) THEN OVF
       ELSE InterpolateInt(strat, lo, hi, qi, Len(lane))
BulkEqSingle ==
    (pc = "done" /\ outcome \in {"ok", "overflow"}) => \A x \in DOMAIN qs : res[x] = SingleRes(qs[x])

Terminates == <>(pc = "done")

EmitInv ==
    (Emit /\ pc = "done" /\ outcome # "InvalidQuantile" /\ Len(lane) > 0 /\ Len(qs) > 0) =>
        PrintT(<<"REPLAY", ToJson([ev |-> "quantile", strat |-> strat, data |-> lane,
                                   qs |-> [x \in DOMAIN qs |-> [a |-> qs[x][1], b |-> qs[x][2], u |-> 0]]])>>)
=============================================================================
