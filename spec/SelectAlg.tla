------------------------------ MODULE SelectAlg -----------------------------
(***************************************************************************)
(* `get_from_sorted_mut' (src/sort.rs:109-131) on an array of ANY length   *)
(* holding ANY integers, for ANY in-range position and ANY sequence of     *)
(* pivots: the recursion as a state machine over a window [lo, hi), with   *)
(* the partition step taken by its contract (the contract itself is proved *)
(* for every length in PartitionProof.tla):                                *)
(*   - nothing outside the window changes,                                 *)
(*   - every value of the window afterwards was in the window before,      *)
(*   - everything before the returned index k is strictly smaller than the *)
(*     element at k, everything after it is not smaller.                   *)
(* SelectProof.tla proves with TLAPS that in every reachable state the     *)
(* wanted position - if in range - stays inside the window (so neither the *)
(* range assertion nor the empty-range panic of `gen_range(0..0)' can      *)
(* fire), an out-of-range position is rejected at the first level (C16),   *)
(* the window is sandwiched between what lies left and right of            *)
(* it, and at return the element at the wanted position is >= everything   *)
(* before it and <= everything after it (arrangement clause of C02).       *)
(* The multiset clause and `ret = SortedAt' are checked by TLC (bounded).  *)
(*                                                                         *)
(* Tied to Select.tla by TLC: the property RefinesProof of that module.    *)
(***************************************************************************)
EXTENDS Integers

VARIABLES Len0, Want0, Arr0,  \* parameters of the call: length, position, initial contents (never change)
          arr, lo, hi, want, pc, ret,
          perm,               \* ghost: perm[x] is the original position of the element now at x
          lastq               \* ghost: the rearrangement performed by the last partition step
vars == <<Len0, Want0, Arr0, arr, lo, hi, want, pc, ret, perm, lastq>>
params == <<Len0, Want0, Arr0>>

Assumptions ==
    /\ Len0 \in Nat
    /\ Want0 \in Nat                       \* any position: in range (Want0 < Len0) or not
InRange == Want0 < Len0

Idx == 0 .. (Len0 - 1)
InWin(x) == lo <= x /\ x < hi

Init ==
    /\ Assumptions
    /\ arr \in [Idx -> Int] /\ Arr0 = arr
    /\ perm = [x \in Idx |-> x] /\ lastq = [x \in Idx |-> x]
    /\ lo = 0 /\ hi = Len0 /\ want = Want0 /\ pc = "run" /\ ret = 0

(* `assert!(i < n)' at the entry of every level *)
CheckRange ==
    /\ pc = "run" /\ want >= hi - lo
    /\ pc' = "panic"
    /\ UNCHANGED <<arr, lo, hi, want, ret, params, perm, lastq>>

Guarded == pc = "run" /\ want < hi - lo

(* sort.rs:115-116 *)
LenOneShortcut ==
    /\ Guarded /\ hi - lo = 1
    /\ ret' = arr[lo] /\ pc' = "done"
    /\ UNCHANGED <<arr, lo, hi, want, params, perm, lastq>>

(* sort.rs:119: gen_range(0..0) *)
EmptyRangePanic ==
    /\ Guarded /\ hi - lo = 0
    /\ pc' = "panic"
    /\ UNCHANGED <<arr, lo, hi, want, ret, params, perm, lastq>>

(* what partition_mut(p) on the window guarantees, k being the returned index relative to the window: the new contents are *)
(* the old ones rearranged by some q that is the identity outside the window, maps the window into itself and never maps    *)
(* two positions to one (PartitionProof.PermInv for the window), with the arrangement around lo + k                          *)
Rearranges(q, a, b) ==
    /\ q \in [Idx -> Idx]
    /\ \A x \in Idx : ~InWin(x) => q[x] = x
    /\ \A y \in Idx : InWin(y) => InWin(q[y])
    /\ \A x \in Idx : \A y \in Idx : x # y => q[x] # q[y]
    /\ \A x \in Idx : b[x] = a[q[x]]
PartitionContract(a, b, k, q) ==
    /\ b \in [Idx -> Int]
    /\ Rearranges(q, a, b)
    /\ \A y \in Idx : (InWin(y) /\ y < lo + k) => b[y] < b[lo + k]
    /\ \A y \in Idx : (InWin(y) /\ y > lo + k) => b[y] >= b[lo + k]

(* sort.rs:118-129, any pivot *)
DrawAndPartition ==
    /\ Guarded /\ hi - lo >= 2
    /\ lastq' \in [Idx -> Idx]
    /\ perm' = [x \in Idx |-> perm[lastq'[x]]]
    /\ \E k \in 0 .. (hi - lo - 1) :
          /\ PartitionContract(arr, arr', k, lastq')
          /\ IF want < k
             THEN hi' = lo + k /\ UNCHANGED <<lo, want, ret, pc>>
             ELSE IF want = k
             THEN ret' = arr'[lo + want] /\ pc' = "done" /\ UNCHANGED <<lo, hi, want>>
             ELSE /\ lo' = lo + k + 1
                  /\ want' = want - (k + 1)
                  /\ UNCHANGED <<hi, ret, pc>>
    /\ UNCHANGED params

Next == CheckRange \/ LenOneShortcut \/ EmptyRangePanic \/ DrawAndPartition
Spec == Init /\ [][Next]_vars

---------------------------------------------------------------------------
TypeOK ==
    /\ Assumptions
    /\ arr \in [Idx -> Int]
    /\ lo \in Int /\ hi \in Int /\ want \in Int /\ ret \in Int
    /\ 0 <= lo /\ lo <= hi /\ hi <= Len0
    /\ pc \in {"run", "done", "panic"}

(* C16 for every length: an in-range position never panics; an out-of-range one is rejected by the assertion at the *)
(* first level - nothing is returned and nothing is rearranged before that                                          *)
NoPanicInRange == InRange => pc # "panic"
OorInv == ~InRange => (pc = "panic" \/ (pc = "run" /\ lo = 0 /\ hi = Len0 /\ want = Want0))

(* the wanted position stays the same absolute position, inside the window *)
WantInv == (InRange /\ pc = "run") => (lo + want = Want0 /\ 0 <= want /\ want < hi - lo)

(* everything left of the window is <= everything inside, which is <= everything right of it *)
SandwichInv ==
    \A x \in Idx : \A y \in Idx :
        InWin(y) => /\ x < lo  => arr[x] <= arr[y]
                    /\ x >= hi => arr[y] <= arr[x]

(* C02 at return (arrangement clause) *)
Post ==
    pc = "done" =>
        /\ ret = arr[Want0]
        /\ \A x \in Idx : x < Want0 => arr[x] <= ret
        /\ \A x \in Idx : x > Want0 => ret <= arr[x]

(* C03 for every length: the array is at all times a rearrangement of the original one *)
PermInv ==
    /\ Arr0 \in [Idx -> Int]
    /\ perm \in [Idx -> Idx]
    /\ \A x \in Idx : \A y \in Idx : x # y => perm[x] # perm[y]
    /\ \A x \in Idx : arr[x] = Arr0[perm[x]]

Core == TypeOK /\ NoPanicInRange /\ OorInv /\ WantInv /\ SandwichInv /\ Post
Inv == Core /\ PermInv
=============================================================================
