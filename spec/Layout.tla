------------------------------- MODULE Layout ------------------------------
(***************************************************************************)
(* Memory model of ndarray views, as far as ndarray-stats depends on it.   *)
(*                                                                         *)
(* A geometry is [ptr, shape, strides]: ptr = cell of the logical first    *)
(* element inside a parent buffer, shape and strides are sequences (one    *)
(* entry per axis; strides may be negative).  The element with (0-based)   *)
(* index tuple idx lives in cell  ptr + SUM idx[k] * strides[k].           *)
(*                                                                         *)
(* View-forming operations are transcribed from ndarray 0.16               *)
(* (dimension/mod.rs `do_slice', `default_strides', `fortran_strides',     *)
(* `permuted_axes', `invert_axis').  The trace validators compare the      *)
(* geometry this model predicts for a layout descriptor with the geometry  *)
(* (as_ptr, shape, strides) observed on the real array, which binds the    *)
(* model to ndarray; all memory claims are then evaluated on the observed  *)
(* geometry.                                                               *)
(***************************************************************************)
EXTENDS Prelude

Prod(s) ==
    LET RECURSIVE P(_)
        P(k) == IF k = 0 THEN 1 ELSE s[k] * P(k - 1)
    IN P(Len(s))

Size(g) == Prod(g.shape)
NDim(g) == Len(g.shape)

(* default_strides / fortran_strides: all zero when some axis is empty. *)
CStrides(shape) ==
    IF \E k \in DOMAIN shape : shape[k] = 0 THEN [k \in DOMAIN shape |-> 0]
    ELSE [k \in DOMAIN shape |-> Prod(SubSeq(shape, k + 1, Len(shape)))]
FStrides(shape) ==
    IF \E k \in DOMAIN shape : shape[k] = 0 THEN [k \in DOMAIN shape |-> 0]
    ELSE [k \in DOMAIN shape |-> Prod(SubSeq(shape, 1, k - 1))]

FromShape(shape, order) ==
    [ptr |-> 0, shape |-> shape, strides |-> IF order = "F" THEN FStrides(shape) ELSE CStrides(shape)]

(* do_slice on axis ax (1-based) with 0 <= start <= end <= extent and step # 0. *)
SliceAxis(g, ax, start, end, step) ==
    LET m  == end - start
        s  == g.strides[ax]
        off == IF m = 0 THEN 0
               ELSE IF step < 0 THEN (end - 1) * s
               ELSE start * s
        a  == Abs(step)
        d  == IF a = 1 THEN m ELSE (m \div a) + (IF m % a > 0 THEN 1 ELSE 0)
    IN [ptr |-> g.ptr + off,
        shape |-> [g.shape EXCEPT ![ax] = d],
        strides |-> [g.strides EXCEPT ![ax] = IF d <= 1 THEN 0 ELSE s * step]]

(* slice every axis: sl is a sequence of <<start, end, step>> *)
RECURSIVE SliceAll(_, _, _)
SliceAll(g, sl, ax) ==
    IF ax > Len(sl) THEN g
    ELSE SliceAll(SliceAxis(g, ax, sl[ax][1], sl[ax][2], sl[ax][3]), sl, ax + 1)

(* permuted_axes: new axis k is old axis perm[k] (perm is 1-based here). *)
Permute(g, perm) ==
    [ptr |-> g.ptr, shape |-> [k \in DOMAIN perm |-> g.shape[perm[k]]],
     strides |-> [k \in DOMAIN perm |-> g.strides[perm[k]]]]

InvertAxis(g, ax) ==
    IF g.shape[ax] = 0 THEN g
    ELSE [g EXCEPT !.ptr = g.ptr + (g.shape[ax] - 1) * g.strides[ax], !.strides[ax] = -g.strides[ax]]

(* The geometry a layout descriptor denotes.  lay = [pshape, order, sl, perm] with perm 0-based as in the harness. *)
LayGeom(lay) ==
    LET g0 == FromShape(lay.pshape, lay.order)
        g1 == SliceAll(g0, lay.sl, 1)
    IN Permute(g1, [k \in DOMAIN lay.perm |-> lay.perm[k] + 1])

---------------------------------------------------------------------------
(* Addresses and lanes (index tuples are 0-based sequences). *)
RECURSIVE Dot(_, _, _)
Dot(idx, strides, k) == IF k = 0 THEN 0 ELSE idx[k] * strides[k] + Dot(idx, strides, k - 1)
Addr(g, idx) == g.ptr + Dot(idx, g.strides, Len(idx))

(* Row-major (logical) enumeration: the t-th index tuple of a shape, t 0-based. *)
RECURSIVE UnravelRec(_, _, _)
UnravelRec(shape, t, k) ==
    IF k = 0 THEN <<>>
    ELSE UnravelRec(shape, t \div shape[k], k - 1) \o <<t % shape[k]>>
Unravel(shape, t) == UnravelRec(shape, t, Len(shape))

(* Inverse: position of index tuple idx in row-major order. *)
RECURSIVE RavelRec(_, _, _)
RavelRec(shape, idx, k) ==
    IF k = 0 THEN 0 ELSE RavelRec(shape, idx, k - 1) * shape[k] + idx[k]
Ravel(shape, idx) == RavelRec(shape, idx, Len(shape))

(* Cell of the t-th element in logical (row-major) order. *)
AddrAt(g, t) == Addr(g, Unravel(g.shape, t))
AddrSet(g) == {AddrAt(g, t) : t \in 0..(Size(g) - 1)}
NonAliasing(g) == Cardinality(AddrSet(g)) = Size(g)

(* The 1-D lane of g along axis ax (1-based) that passes through index tuple idx (idx[ax] ignored). *)
LaneView(g, ax, idx) ==
    [ptr |-> Addr(g, [idx EXCEPT ![ax] = 0]), len |-> g.shape[ax], stride |-> g.strides[ax]]

(* Shape with axis ax removed, and the lane addressed by the t-th index of that smaller shape. *)
RemoveAt(s, ax) == SubSeq(s, 1, ax - 1) \o SubSeq(s, ax + 1, Len(s))
InsertAt(s, ax, v) == SubSeq(s, 1, ax - 1) \o <<v>> \o SubSeq(s, ax, Len(s))
LaneOf(g, ax, t) == LaneView(g, ax, InsertAt(Unravel(RemoveAt(g.shape, ax), t), ax, 0))
NumLanes(g, ax) == Prod(RemoveAt(g.shape, ax))
=============================================================================
