---------------------------- MODULE Trace_MinMax ---------------------------
(***************************************************************************)
(* Validates observations of min/max/argmin/argmax (C05), their skip-NaN   *)
(* forms, the skip-NaN folds and visits, and quantile_axis_skipnan_mut     *)
(* (C14) recorded from the real code.                                      *)
(***************************************************************************)
EXTENDS MinMaxOps, QuantOps, Layout, ViewOps, TraceBase

VARIABLE l

Pos(e, idx) == Ravel(e.shape, idx)
ArgRes(e, f) == [out |-> e[f].out, pos |-> IF e[f].out = "ok" /\ Len(e[f].idx) = Len(e.shape) /\ (\A k \in DOMAIN e.shape : e[f].idx[k] < e.shape[k])
                                               THEN Pos(e, e[f].idx) ELSE -1, rank |-> 0]
ValRes(e, f) == [out |-> e[f].out, pos |-> 0, rank |-> e[f].rank]

PlainOK(e) ==
    /\ Len(e.r) = Prod(e.shape)
    /\ ArgOK(e.r, ArgRes(e, "argmin"), TRUE)
    /\ ArgOK(e.r, ArgRes(e, "argmax"), FALSE)
    /\ ValOK(e.r, ValRes(e, "min"), TRUE)
    /\ ValOK(e.r, ValRes(e, "max"), FALSE)
    \* the value found by the arg form equals the value returned by the value form
    /\ e.argmin.out = "ok" => e.r[ArgRes(e, "argmin").pos + 1] = e.min.rank
    /\ e.argmax.out = "ok" => e.r[ArgRes(e, "argmax").pos + 1] = e.max.rank

(* lane t (0-based) of the logical array r of shape sh along axis ax (1-based), as a sequence *)
LaneSeq(r, sh, ax, t) ==
    LET li == Unravel(RemoveAt(sh, ax), t) IN
    [x \in 1..sh[ax] |-> r[Ravel(sh, InsertAt(li, ax, x - 1)) + 1]]

SkipOK(e) ==
    /\ SkipArgOK(e.r, ArgRes(e, "sargmin"), TRUE)
    /\ SkipArgOK(e.r, ArgRes(e, "sargmax"), FALSE)
    /\ SkipValOK(e.r, ValRes(e, "smin"), TRUE)
    /\ SkipValOK(e.r, ValRes(e, "smax"), FALSE)
    /\ VisitOK(e.r, e.fold)
    /\ VisitOK(e.r, e.visit)
    /\ \A x \in DOMAIN e.ifold : Len(e.ifold[x].idx) = Len(e.shape) /\ \A k \in DOMAIN e.shape : e.ifold[x].idx[k] < e.shape[k]
    /\ IndexedVisitOK(e.r, [x \in DOMAIN e.ifold |-> <<Pos(e, e.ifold[x].idx), e.ifold[x].rank>>])
    /\ Len(e.afold) = Len(e.shape)
    /\ \A a \in DOMAIN e.afold :
          LET ax == e.afold[a].axis + 1
              nl == Prod(RemoveAt(e.shape, ax))
          IN /\ Len(e.afold[a].lanes) = nl
             \* the per-axis fold combines along the axis in logical order (as fold_axis does): exactly the kept elements, in order
             /\ \A t \in 0..(nl - 1) : e.afold[a].lanes[t + 1] = KeptSeq(LaneSeq(e.r, e.shape, ax, t))

(* The plain forms are specified (C05) for integer and floating-point elements; Option<T> is totally *)
(* ordered by the standard library (None first) and is used here for the skip forms only.           *)
PlainTy(e) == e.ty \in {"i32", "f32", "f64"}

MinMaxEvOK(e) ==
    CASE PROP = "C05" -> (PlainTy(e) => PlainOK(e))
      [] PROP = "C14" -> (e.skip => SkipOK(e))
      [] OTHER -> (PlainTy(e) => PlainOK(e)) /\ (e.skip => SkipOK(e))

(* quantile_axis_skipnan_mut: per lane the plain quantile of the kept elements, or the missing value *)
QSkipFrameOK(e) ==
    LET ax == e.axis + 1 IN
       \* C03 for this routine: lanes keep their multisets, nothing else changes
       /\ Len(e.mem0) = Len(e.mem1)
       /\ LET A == AddrSet(e.g) IN \A c \in 0..(Len(e.mem0) - 1) : c \notin A => Cell(e.mem1, c) = Cell(e.mem0, c)
       /\ \A t \in 0..(NumLanes(e.g, ax) - 1) :
             LET v == LaneOf(e.g, ax, t) IN SameBag(VLane(e.mem0, v), VLane(e.mem1, v))
QSkipEvOK(e) ==
    LET ax == e.axis + 1
        keptOf(lane) == SelectSeq(lane, LAMBDA v : v # e.missing)
    IN IF Has(e, "badq") /\ e.badq
       THEN \* a request outside [0, 1] is rejected as the plain operation rejects it, whatever the data hold (all missing included)
            e.out = "InvalidQuantile" /\ QSkipFrameOK(e)
       ELSE
       /\ e.out = "ok"
       /\ e.rshape = RemoveAt(e.g.shape, ax)
       /\ Len(e.res) = Len(e.lanes)
       /\ \A t \in DOMAIN e.lanes :
             LET k == keptOf(e.lanes[t]) IN
             IF Len(k) = 0 THEN e.res[t] = e.missing
             ELSE e.res[t] # e.missing /\ QuantileValueOK(k, e.qis[t], e.strat, e.res[t], e.ty \in {"f64", "opt_n64"})
       /\ QSkipFrameOK(e)

EventOK(e) ==
    CASE e.ev = "minmax"      -> MinMaxEvOK(e)
      [] e.ev = "minmax_skip" -> TRUE       \* the pattern cannot be represented in the requested element type
      [] e.ev = "qskip"       -> QSkipEvOK(e)
      [] OTHER -> FALSE

(* drift: first-extremal tie-breaking of the transcription (the code returns the first minimum / maximum in logical order) *)
FirstPos(r, v) == (CHOOSE x \in DOMAIN r : r[x] = v /\ \A y \in DOMAIN r : r[y] = v => x <= y) - 1
Drift(e) ==
    CASE e.ev = "minmax" ->
            \/ (Size(e.g) > 0 /\ LayGeom(e.lay) # e.g)
            \/ (PlainTy(e) /\ e.argmin.out = "ok" /\ ArgRes(e, "argmin").pos # FirstPos(e.r, MinOf(e.r)))
            \/ (PlainTy(e) /\ e.argmax.out = "ok" /\ ArgRes(e, "argmax").pos # FirstPos(e.r, MaxOf(e.r)))
      [] OTHER -> FALSE

Init == l = 1
Next ==
    /\ l <= Len(Rec)
    /\ LET e == Rec[l] IN
         IF EventOK(e)
         THEN (IF Drift(e) THEN MarkDrift(l) ELSE TRUE)
         ELSE MarkBad(l)
    /\ l' = l + 1
Spec == Init /\ [][Next]_l
=============================================================================
