------------------------------ MODULE Histogram ----------------------------
(***************************************************************************)
(* State machine of `Histogram' (histograms.rs:16-59): New, then any       *)
(* sequence of add_observation calls.  The visible state is `counts'       *)
(* (flat, row-major); `seen' is a history variable holding the accepted    *)
(* observations as a sequence (hidden by the VIEW in the pure model-       *)
(* checking configuration).  Add transcribes the code: per-axis lookup     *)
(* with IndicesOfImpl, increment or BinNotFound.                           *)
(***************************************************************************)
EXTENDS HistOps, Json

CONSTANTS NAxes,      \* number of axes
          Dom,        \* edge values are subsets of 0..Dom-1 on every axis
          MaxEdges,   \* at most this many edges per axis
          Depth,      \* maximal number of add_observation calls
          Emit

VARIABLES axes, counts, seen, hist, last    \* hist: full call history (points, accepted or not); last: result of the last call

vars == <<axes, counts, seen, hist, last>>
view == <<axes, counts, Len(hist)>>

EdgeSets == {SetToSortedSeq(S) : S \in {T \in SUBSET (0..(Dom - 1)) : Cardinality(T) <= MaxEdges}}
Probes == -1..Dom                                         \* below, on every edge, between, above
Points == [1..NAxes -> Probes]

Init ==
    /\ axes \in [1..NAxes -> EdgeSets]
    /\ counts = [c \in 1..ShapeProd(GridShape(axes)) |-> 0]      \* Histogram::new: zeros of the grid's shape
    /\ seen = <<>> /\ hist = <<>> /\ last = "new"

(* Grid::index_of through the transcription of indices_of (grid.rs:203-220) *)
ImplIndexOfOn(ax, pt) ==
    IF \E a \in DOMAIN ax : IndicesOfImpl(ax[a], pt[a]) = NONE THEN <<NONE>>
    ELSE [a \in DOMAIN ax |-> IndicesOfImpl(ax[a], pt[a])]

(* add_observation (histograms.rs:48-59) as a function of the state: new counts and result *)
AddResult(ax, cnts, pt) ==
    LET ix == ImplIndexOfOn(ax, pt) IN
    IF ix = <<NONE>> THEN [counts |-> cnts, res |-> "BinNotFound"]
    ELSE [counts |-> [cnts EXCEPT ![Flat(GridShape(ax), ix) + 1] = @ + 1], res |-> "ok"]

Add(pt) ==
    /\ AddResult(axes, counts, pt).res = "ok"
    /\ counts' = AddResult(axes, counts, pt).counts
    /\ seen' = Append(seen, pt) /\ last' = "ok"

AddRejected(pt) ==
    /\ AddResult(axes, counts, pt).res = "BinNotFound"
    /\ UNCHANGED <<counts, seen>> /\ last' = "BinNotFound"

Step(pt, A(_)) == Len(hist) < Depth /\ A(pt) /\ hist' = Append(hist, pt) /\ UNCHANGED axes
AcceptedInsert == \E pt \in Points : Step(pt, Add)
RejectedInsert == \E pt \in Points : Step(pt, AddRejected)
Next == AcceptedInsert \/ RejectedInsert
Spec == Init /\ [][Next]_vars

---------------------------------------------------------------------------
(* C11 in every state *)
HistOK ==
    /\ Len(counts) = ShapeProd(GridShape(axes))                       \* always the grid's shape
    /\ counts = CountsOf(axes, hist)                                   \* exact counts of the observations so far (rejected ones contribute nothing)
    /\ SumSeq(counts) = Len(seen)
(* the transcription of indices_of agrees with the abstract left-closed right-open lookup (C13) *)
LookupAgree == \A a \in DOMAIN axes : \A v \in Probes : IndicesOfImpl(axes[a], v) = BinOf(axes[a], v)
(* a rejected insert changes nothing *)
RejectedNoChange == [][last' = "BinNotFound" => counts' = counts]_vars

(* Refinement of the module whose invariant (every count = number of observations of the history in that cell) is PROVED  *)
(* for every grid size and every history by TLAPS (HistAlg.tla, proofs in HistProof.tla): an observation is mapped to the *)
(* flat cell it falls into (0 when some axis has no bin for it).                                                          *)
CellOf(pt) == LET ix == ImplIndexOfOn(axes, pt) IN IF ix = <<NONE>> THEN 0 ELSE Flat(GridShape(axes), ix) + 1
PP == INSTANCE HistAlg WITH NC <- ShapeProd(GridShape(axes)), cells <- [k \in 1..Len(hist) |-> CellOf(hist[k])]
RefinesProof == PP!Spec

EmitInv ==
    (Emit /\ Len(hist) = Depth) =>
        PrintT(<<"REPLAY", ToJson([ev |-> "hist", axes |-> axes, pts |-> hist])>>)
=============================================================================
