------------------------------- MODULE HistAlg ------------------------------
(***************************************************************************)
(* `Histogram' (histograms.rs:16-59) for a grid with ANY number of cells   *)
(* and ANY history of add_observation calls.  An observation enters the    *)
(* specification through the cell it falls into (1..NC, or 0 when some     *)
(* axis has no bin for it and the call returns BinNotFound); which cell     *)
(* that is, is the business of the lookup (LookupProof.tla, Lookup.tla).   *)
(* HistProof.tla proves with TLAPS that in every reachable state each      *)
(* count equals the number of observations of the history that fell into   *)
(* that cell - rejected observations contributing nothing (C11).           *)
(* Tied to Histogram.tla by TLC: property RefinesProof.                    *)
(***************************************************************************)
EXTENDS Integers, Sequences, FiniteSets

VARIABLES NC,          \* number of cells of the grid (never changes)
          counts,      \* [1..NC -> Nat]
          cells        \* history: the cell of every observation passed so far (0 = none)
vars == <<NC, counts, cells>>

Init == NC \in Nat /\ counts = [c \in 1 .. NC |-> 0] /\ cells = <<>>

Accepted(c) ==
    /\ c \in 1 .. NC
    /\ counts' = [counts EXCEPT ![c] = @ + 1]
    /\ cells' = Append(cells, c)
    /\ UNCHANGED NC

Rejected ==
    /\ cells' = Append(cells, 0)
    /\ UNCHANGED <<NC, counts>>

Next == Rejected \/ \E c \in 1 .. NC : Accepted(c)
Spec == Init /\ [][Next]_vars

---------------------------------------------------------------------------
Hits(h, c) == {k \in 1 .. Len(h) : h[k] = c}

TypeOK ==
    /\ NC \in Nat
    /\ counts \in [1 .. NC -> Nat]
    /\ cells \in Seq(0 .. NC)

(* C11: every count is exactly the number of observations so far that fell into its cell *)
Exact == \A c \in 1 .. NC : counts[c] = Cardinality(Hits(cells, c))

Inv == TypeOK /\ Exact
=============================================================================
