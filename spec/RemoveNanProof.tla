--------------------------- MODULE RemoveNanProof ---------------------------
(***************************************************************************)
(* TLAPS proofs about RemoveNanAlg: Inv (cursor safety, loop invariant,    *)
(* the returned prefix is exactly the non-missing part) is inductive for   *)
(* lanes of every length.        tlapm RemoveNanProof.tla                  *)
(***************************************************************************)
EXTENDS RemoveNanAlg, TLAPS

LEMMA InitInv == Init => Inv
  BY DEF Assumptions, params, Init, Inv, TypeOK, CursorInv, LoopInv, Post, Split, StartOK, Scanning, Idx, Missing

LEMMA StartInv == Inv /\ Start => Inv'
  BY DEF Assumptions, params, Inv, Start, TypeOK, CursorInv, LoopInv, Post, Split, StartOK, Scanning, Idx, Missing

LEMMA StepIInv == Inv /\ StepI => Inv'
  BY DEF Assumptions, params, Inv, StepI, TypeOK, CursorInv, LoopInv, Post, Split, StartOK, Scanning, Idx, Missing

LEMMA StepJInv == Inv /\ StepJ => Inv'
  BY DEF Assumptions, params, Inv, StepJ, TypeOK, CursorInv, LoopInv, Post, Split, StartOK, Scanning, Idx, Missing

LEMMA CmpInv == Inv /\ Cmp => Inv'
  BY DEF Assumptions, params, Inv, Cmp, TypeOK, CursorInv, LoopInv, Post, Split, StartOK, Scanning, Idx, Missing, Swap

LEMMA CastInv == Inv /\ Cast => Inv'
  BY DEF Assumptions, params, Inv, Cast, TypeOK, CursorInv, LoopInv, Post, Split, StartOK, Scanning, Idx, Missing

LEMMA StutterInv == Inv /\ UNCHANGED vars => Inv'
  BY DEF Assumptions, params, Inv, vars, TypeOK, CursorInv, LoopInv, Post, Split, StartOK, Scanning, Idx, Missing

THEOREM Safety == Spec => []Inv
  <1>1. Inv /\ [Next]_vars => Inv'
    BY StartInv, StepIInv, StepJInv, CmpInv, CastInv, StutterInv DEF Next
  <1>. QED  BY InitInv, <1>1, PTL DEF Spec
=============================================================================
