--------------------------- MODULE RemoveNanProof ---------------------------
(***************************************************************************)
(* TLAPS proofs about RemoveNanAlg: Inv (cursor safety, loop invariant,    *)
(* the returned prefix is exactly the non-missing part, and - through a    *)
(* ghost permutation - the lane is always a rearrangement of the original  *)
(* one) is inductive for lanes of every length.                            *)
(***************************************************************************)
EXTENDS RemoveNanAlg, TLAPS

USE DEF Assumptions, params, Scanning, Idx, Missing

LEMMA InitCore == Init => Core
  BY DEF Init, Core, TypeOK, CursorInv, LoopInv, Post, Split, StartOK
LEMMA StartCore == Core /\ Start => Core'
  BY DEF Core, Start, TypeOK, CursorInv, LoopInv, Post, Split, StartOK
LEMMA StepICore == Core /\ StepI => Core'
  BY DEF Core, StepI, TypeOK, CursorInv, LoopInv, Post, Split, StartOK
LEMMA StepJCore == Core /\ StepJ => Core'
  BY DEF Core, StepJ, TypeOK, CursorInv, LoopInv, Post, Split, StartOK
LEMMA CmpCore == Core /\ Cmp => Core'
  BY DEF Core, Cmp, TypeOK, CursorInv, LoopInv, Post, Split, StartOK, Swap
LEMMA CastCore == Core /\ Cast => Core'
  BY DEF Core, Cast, TypeOK, CursorInv, LoopInv, Post, Split, StartOK
LEMMA StutterCore == Core /\ UNCHANGED vars => Core'
  BY DEF Core, vars, TypeOK, CursorInv, LoopInv, Post, Split, StartOK

LEMMA InitPerm == Init => PermInv
  BY DEF Init, PermInv

LEMMA CmpPerm == Inv /\ Cmp => PermInv'
  <1> SUFFICES ASSUME Inv, Cmp PROVE PermInv'
    OBVIOUS
  <1>0. lane \in [Idx -> Int] /\ Lane0 \in [Idx -> Int] /\ Lane0' = Lane0 /\ Len0' = Len0 /\ PermInv /\ pc = "Cmp"
        /\ i \in Int /\ j \in Int /\ 0 <= i /\ i <= Len0 /\ 0 <= j /\ j <= Len0 - 1 /\ Len0 \in Nat
    BY DEF Inv, Core, TypeOK, CursorInv, Cmp
  <1>a. CASE i >= j
    BY <1>0, <1>a DEF Cmp, PermInv
  <1>b. CASE ~(i >= j)
    <2>1. lane' = Swap(lane, i, j) /\ perm' = Swap(perm, i, j) /\ i \in Idx /\ j \in Idx
      BY <1>0, <1>b DEF Cmp
    <2>2. /\ perm \in [Idx -> Idx] /\ (\A u \in Idx : \A v \in Idx : u # v => perm[u] # perm[v]) /\ (\A u \in Idx : lane[u] = Lane0[perm[u]])
      BY <1>0 DEF PermInv
    <2>3. /\ Swap(perm, i, j) \in [Idx -> Idx]
          /\ \A u \in Idx : \A v \in Idx : u # v => Swap(perm, i, j)[u] # Swap(perm, i, j)[v]
          /\ \A u \in Idx : Swap(lane, i, j)[u] = Lane0[Swap(perm, i, j)[u]]
      <3> HIDE DEF Idx
      <3> QED BY <1>0, <2>1, <2>2 DEF Swap
    <2> QED BY <1>0, <2>1, <2>3 DEF PermInv
  <1> QED BY <1>a, <1>b

LEMMA KeepPerm == ASSUME PermInv, UNCHANGED <<lane, perm, Lane0, Len0>> PROVE PermInv'
  BY DEF PermInv

THEOREM Safety == Spec => []Inv
  <1>1. Inv /\ [Next]_vars => Inv'
    <2> SUFFICES ASSUME Inv, [Next]_vars PROVE Inv'
      OBVIOUS
    <2>1. Core /\ PermInv
      BY DEF Inv
    <2>a. CASE Start
      BY <2>1, <2>a, StartCore, KeepPerm DEF Inv, Start
    <2>b. CASE StepI
      BY <2>1, <2>b, StepICore, KeepPerm DEF Inv, StepI
    <2>c. CASE StepJ
      BY <2>1, <2>c, StepJCore, KeepPerm DEF Inv, StepJ
    <2>d. CASE Cmp
      BY <2>1, <2>d, CmpCore, CmpPerm DEF Inv
    <2>e. CASE Cast
      BY <2>1, <2>e, CastCore, KeepPerm DEF Inv, Cast
    <2>f. CASE UNCHANGED vars
      BY <2>1, <2>f, StutterCore, KeepPerm DEF Inv, vars
    <2> QED BY <2>a, <2>b, <2>c, <2>d, <2>e, <2>f DEF Next
  <1>2. Init => Inv
    BY InitCore, InitPerm DEF Inv
  <1>. QED  BY <1>1, <1>2, PTL DEF Spec
=============================================================================
