---------------------------- MODULE EquiSpacedAlg ---------------------------
(***************************************************************************)
(* The bin-count loop of `EquiSpaced::n_bins' (strategies.rs:241-249, as   *)
(* repaired: the count is advanced with the expression that places the     *)
(* edges, min + n*width) over ALL integers min < max and width > 0, and    *)
(* the invariants that EquiSpacedProof.tla proves with TLAPS: the edge      *)
(* variable always equals min + n*width, the previous edge never exceeds   *)
(* the maximum, and at exit the last edge lies strictly above the maximum  *)
(* by at most one bin width, every value of [min, max] falls into one of   *)
(* the n bins, and n is bounded by (max - min) / width + 1 (so the loop    *)
(* cannot run away).  Tied to EquiSpaced.tla (integer instance) by TLC:    *)
(* property RefinesProof.                                                  *)
(***************************************************************************)
EXTENDS Integers

VARIABLES mn, mx, w,        \* parameters (never change)
          edge, n, pc
vars == <<mn, mx, w, edge, n, pc>>
params == <<mn, mx, w>>

Assumptions == mn \in Int /\ mx \in Int /\ w \in Int /\ mn < mx /\ w > 0

Init == Assumptions /\ edge = mn /\ n = 0 /\ pc = "count"

CountStep ==
    /\ pc = "count"
    /\ IF edge <= mx
       THEN n' = n + 1 /\ edge' = mn + (n + 1) * w /\ UNCHANGED pc
       ELSE pc' = "build" /\ UNCHANGED <<n, edge>>
    /\ UNCHANGED params

Next == CountStep
Spec == Init /\ [][Next]_vars

---------------------------------------------------------------------------
TypeOK == Assumptions /\ edge \in Int /\ n \in Nat /\ pc \in {"count", "build"}

LoopInv ==
    /\ edge = mn + n * w
    /\ n >= 1 => mn + (n - 1) * w <= mx             \* the previous edge did not exceed the maximum

(* C12 at exit *)
Post ==
    pc = "build" =>
        /\ n >= 1
        /\ mn + n * w > mx                           \* the last edge lies strictly above the maximum
        /\ mn + n * w - mx <= w                      \* ... by at most one bin width

Inv == TypeOK /\ LoopInv /\ Post
=============================================================================
