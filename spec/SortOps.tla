------------------------------ MODULE SortOps ------------------------------
(***************************************************************************)
(* Constant-level operators for src/sort.rs:                               *)
(*   - the abstract predicates (the properties C15, C02, C16 themselves);  *)
(*   - PartitionFn, a functional transcription of `partition_mut' used by  *)
(*     the Select and Bulk state machines (its equivalence with the        *)
(*     fine-grained Partition state machine is model-checked in            *)
(*     MC_Partition);                                                      *)
(*   - SelectFn / BulkFn: functional replays of a *logged* pivot sequence, *)
(*     used by the trace validator to detect drift between the             *)
(*     transcription and the code.                                         *)
(***************************************************************************)
EXTENDS Prelude

CONSTANTS FixF1,   \* TRUE: partition_mut's inner loop stops at `j <= 1' (repaired); FALSE: `j == 1' (pinned commit)
          FixF2    \* TRUE: selection entry points assert `i < n' (repaired); FALSE: no check (pinned commit)

PANIC == -1        \* result marker: the call panicked
BIG   == 1000000   \* stands for usize::MAX-like positions in models and traces

---------------------------------------------------------------------------
(* Abstract predicates                                                     *)

(* C15: partition_mut(p) on `before' returned k and left `after'. *)
PartitionOK(before, p, k, after) ==
    LET pv == At(before, p) IN
    /\ SameBag(before, after)
    /\ k = CountLess(before, pv)
    /\ At(after, k) = pv
    /\ \A x \in 0..(k - 1) : At(after, x) < pv
    /\ \A x \in (k + 1)..(Len(after) - 1) : At(after, x) >= pv

(* C02: get_from_sorted_mut(i) on `before' returned ret and left `after'. *)
SelectOK(before, i, ret, after) ==
    /\ SameBag(before, after)
    /\ ret = SortedAt(before, i)
    /\ \A x \in 0..(i - 1) : At(after, x) <= ret
    /\ \A x \in i..(Len(after) - 1) : At(after, x) >= ret

(* C02: get_many_from_sorted_mut(idxs) returned the map keys |-> vals      *)
(* (in iteration order) and left `after'.                                  *)
BulkOK(before, idxs, keys, vals, after) ==
    /\ SameBag(before, after)
    /\ keys = SetToSortedSeq(RangeOf(idxs))
    /\ Len(vals) = Len(keys)
    /\ \A x \in DOMAIN keys : vals[x] = SortedAt(before, keys[x])

---------------------------------------------------------------------------
(* Functional transcription of partition_mut (src/sort.rs:146-182).        *)

JStop(j) == IF FixF1 THEN j <= 1 ELSE j = 1

RECURSIVE ScanI(_, _, _, _)
ScanI(a, pv, i, j) ==                       \* sort.rs:157-165
    IF i > j THEN i
    ELSE IF At(a, i) >= pv THEN i
    ELSE ScanI(a, pv, i + 1, j)

RECURSIVE ScanJ(_, _, _)
ScanJ(a, pv, j) ==                          \* sort.rs:166-171
    IF pv <= At(a, j)
    THEN IF JStop(j) THEN j
         ELSE IF j = 0 THEN PANIC           \* `j -= 1' at 0: overflow panic (dev) or wrap then index panic (release)
         ELSE ScanJ(a, pv, j - 1)
    ELSE j

RECURSIVE PLoop(_, _, _, _)
PLoop(a, pv, i, j) ==                       \* sort.rs:156-179
    LET i2 == ScanI(a, pv, i, j)
        j2 == ScanJ(a, pv, j)
    IN IF j2 = PANIC THEN <<a, PANIC>>
       ELSE IF i2 >= j2 THEN <<Swap(a, 0, i2 - 1), i2 - 1>>     \* sort.rs:180-181
       ELSE PLoop(Swap(a, i2, j2), pv, i2 + 1, j2 - 1)

(* <<array after, k>>, or <<_, PANIC>>.  p out of range (in particular any  *)
(* p on an empty array) is the index panic of sort.rs:151.                  *)
PartitionFn(a, p) ==
    IF p >= Len(a) THEN <<a, PANIC>>
    ELSE PLoop(Swap(a, p, 0), At(a, p), 1, Len(a) - 1)

(* partition_mut applied to the window [lo, hi) of a. *)
PartitionWin(a, lo, hi, p) ==
    LET r == PartitionFn(Window(a, lo, hi), p)
    IN <<Splice(a, lo, r[1]), r[2]>>

---------------------------------------------------------------------------
(* Functional replay of a logged pivot sequence `pv' (a sequence of        *)
(* <<n, p>> pairs) through get_from_sorted_mut (sort.rs:109-131).          *)
(* Result: [arr, ret, used] with ret = PANIC on a panic; `used' is the      *)
(* number of pivots consumed; ret = -2 when the log does not fit the       *)
(* transcription (wrong window length or too short).                       *)
RECURSIVE SelectFn(_, _, _, _, _, _)
SelectFn(a, lo, hi, i, pv, u) ==
    LET n == hi - lo IN
    IF FixF2 /\ i >= n THEN [arr |-> a, ret |-> PANIC, used |-> u]
    ELSE IF n = 1 THEN [arr |-> a, ret |-> At(a, lo), used |-> u]
    ELSE IF n = 0 THEN [arr |-> a, ret |-> PANIC, used |-> u]
    ELSE IF u >= Len(pv) \/ pv[u + 1][1] # n THEN [arr |-> a, ret |-> -2, used |-> u]
    ELSE LET r == PartitionWin(a, lo, hi, pv[u + 1][2])
             k == r[2]
         IN IF k = PANIC THEN [arr |-> a, ret |-> PANIC, used |-> u + 1]
            ELSE IF i < k THEN SelectFn(r[1], lo, lo + k, i, pv, u + 1)
            ELSE IF i = k THEN [arr |-> r[1], ret |-> At(r[1], lo + i), used |-> u + 1]
            ELSE SelectFn(r[1], lo + k + 1, hi, i - (k + 1), pv, u + 1)

(* Position of v in the sorted sequence s: <<TRUE, pos>> if found else     *)
(* <<FALSE, insertion point>> (0-based), as slice::binary_search.          *)
BinSearch(s, v) ==
    IF \E x \in DOMAIN s : s[x] = v
    THEN <<TRUE, (CHOOSE x \in DOMAIN s : s[x] = v) - 1>>
    ELSE <<FALSE, Cardinality({x \in DOMAIN s : s[x] < v})>>

(* Functional replay of _get_many_from_sorted_mut_unchecked                *)
(* (sort.rs:227-298) for in-range, sorted, distinct indexes.               *)
(* State threaded through the depth-first recursion: [arr, vals, used, ok] *)
RECURSIVE BulkRec(_, _, _, _, _, _)
BulkRec(st, lo, hi, idxs, slot, pv) ==
    LET n == hi - lo IN
    IF Len(idxs) = 0 \/ ~st.ok THEN st
    ELSE IF n = 1 THEN [st EXCEPT !.vals[slot + 1] = At(st.arr, lo)]
    ELSE IF st.used >= Len(pv) \/ pv[st.used + 1][1] # n THEN [st EXCEPT !.ok = FALSE]
    ELSE LET r   == PartitionWin(st.arr, lo, hi, pv[st.used + 1][2])
             k   == r[2]
             bs  == BinSearch(idxs, k)
             sp  == bs[2]
             st1 == [st EXCEPT !.arr = r[1], !.used = st.used + 1,
                               !.vals = IF bs[1] THEN [st.vals EXCEPT ![slot + sp + 1] = At(r[1], lo + k)]
                                        ELSE st.vals]
             left  == SubSeq(idxs, 1, sp)
             rest  == SubSeq(idxs, sp + 1 + (IF bs[1] THEN 1 ELSE 0), Len(idxs))
             right == [x \in DOMAIN rest |-> rest[x] - (k + 1)]
             st2 == BulkRec(st1, lo, lo + k, left, slot, pv)
         IN BulkRec(st2, lo + k + 1, hi, right, slot + sp + (IF bs[1] THEN 1 ELSE 0), pv)

BulkFn(a, keys, pv) ==
    BulkRec([arr |-> a, vals |-> [x \in DOMAIN keys |-> At(a, 0)], used |-> 0, ok |-> TRUE],
            0, Len(a), keys, 0, pv)
=============================================================================
