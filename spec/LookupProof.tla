----------------------------- MODULE LookupProof ----------------------------
(***************************************************************************)
(* `Edges::indices_of' (bins.rs:217-229) for edge sequences of ANY length: *)
(* the five-way match on the outcome of the standard library's binary      *)
(* search is the left-closed, right-open bin lookup (C13).  Proved with    *)
(* TLAPS from the contract of `slice::binary_search' on a strictly         *)
(* increasing slice: Ok(i) - the value sits at position i; Err(i) - every  *)
(* element before position i is smaller and every element from i on is     *)
(* larger.  Lookup.tla checks (TLC, bounded) that the outcome used by      *)
(* HistOps.IndicesOfImpl satisfies this contract (ContractOK) and that     *)
(* Match is the function IndicesOfImpl computes (MatchOK).                 *)
(***************************************************************************)
EXTENDS LookupAlg, TLAPS

THEOREM LookupCorrect ==
    ASSUME NEW n \in Nat, NEW e \in [1 .. n -> Int], NEW v \in Int, NEW ok \in BOOLEAN, NEW i \in 0 .. n,
           \A x \in 1 .. n : \A y \in 1 .. n : x < y => e[x] < e[y],                     \* strictly increasing edges
           ok => (i < n /\ e[i + 1] = v),                                                 \* Ok(i)
           ~ok => \A x \in 1 .. n : (x <= i => e[x] < v) /\ (x > i => e[x] > v)           \* Err(i): insertion point
    PROVE  LET r == Match(n, ok, i) IN
           /\ r = NONE <=> ~(n >= 2 /\ e[1] <= v /\ v < e[n])                             \* a bin exactly inside [first, last)
           /\ r # NONE => (r \in 0 .. (n - 2) /\ e[r + 1] <= v /\ v < e[r + 2])           \* left-closed, right-open
           /\ \A b \in 0 .. (n - 2) : (e[b + 1] <= v /\ v < e[b + 2]) => b = r            \* and it is the only such bin
  <1> DEFINE r == Match(n, ok, i)
  <1>a. CASE ok
    <2>1. i \in 0 .. (n - 1) /\ e[i + 1] = v /\ r = (IF i = n - 1 THEN NONE ELSE i)
      BY <1>a DEF Match
    <2>2. \A x \in 1 .. n : (x < i + 1 => e[x] < v) /\ (x > i + 1 => e[x] > v)
      BY <2>1
    <2> QED BY <2>1, <2>2 DEF NONE
  <1>b. CASE ~ok
    <2>1. r = (IF i = 0 THEN NONE ELSE IF i = n THEN NONE ELSE i - 1)
      BY <1>b DEF Match
    <2>2. \A x \in 1 .. n : (x <= i => e[x] < v) /\ (x > i => e[x] > v)
      BY <1>b
    <2> QED BY <2>1, <2>2 DEF NONE
  <1> QED BY <1>a, <1>b
=============================================================================
