SPECIFICATION Spec
CONSTANTS
  FixF1 = TRUE
  FixF2 = TRUE
  N = 6
  NMin = 0
  OutOfRange = TRUE
  Emit = FALSE
INVARIANTS TypeOK BagInv CursorInv LoopInv DoneOK PanicIffOutOfRange TwinOK
PROPERTY Terminates
CHECK_DEADLOCK FALSE
