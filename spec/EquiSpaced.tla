----------------------------- MODULE EquiSpaced ----------------------------
(***************************************************************************)
(* State machine of `EquiSpaced::n_bins' and `EquiSpaced::build'           *)
(* (strategies.rs:220-250): the bin-count loop and the edge construction   *)
(* min + i*width followed by Edges::from (sort + dedup).                   *)
(*                                                                         *)
(* Instantiated over the integers (all min < max, width > 0 up to MaxVal)  *)
(* and over MiniFloat(P): a binary floating-point format with P-bit        *)
(* mantissas, round-to-nearest-even and exponents EMin..EMax, built from   *)
(* TLC integers (every value is an integer multiple of 2^EMin; here: an    *)
(* integer in those units).  The phenomena behind the float defects of the *)
(* pinned commit - an accumulated edge passing max one step before the     *)
(* multiplied edge does (F4), and absorption max_edge + width = max_edge   *)
(* (F9) - do not depend on the precision, so the toy format exhibits them. *)
(***************************************************************************)
EXTENDS HistOps

CONSTANTS MaxVal,   \* integer instance: values 0..MaxVal
          Float,    \* TRUE: MiniFloat instance
          P, EMin, EMax,
          FixF4     \* TRUE: bins are counted with min + n*width (repaired); FALSE: accumulating max_edge += width (pinned commit)

VARIABLES mn, mx, w, edge, n, i, edges, pc
vars == <<mn, mx, w, edge, n, i, edges, pc>>

RECURSIVE Pow2(_)
Pow2(k) == IF k = 0 THEN 1 ELSE 2 * Pow2(k - 1)
INF == IF Float THEN Pow2(P) * Pow2(EMax - EMin) * 2 ELSE 1000000    \* MiniFloat: anything at or above the largest finite value rounds to INF

(* round a non-negative integer (units of 2^EMin) to P significant bits, nearest even *)
RECURSIVE RoundAt(_, _)
RoundAt(x, sh) ==      \* x is to be represented as m * 2^sh with m < 2^P
    IF x < Pow2(P) * Pow2(sh)
    THEN LET q == x \div Pow2(sh)  r == x % Pow2(sh)  half == Pow2(sh) \div 2
             m == IF sh = 0 THEN q
                  ELSE IF r > half \/ (r = half /\ q % 2 = 1) THEN q + 1 ELSE q
         IN m * Pow2(sh)
    ELSE RoundAt(x, sh + 1)
Round(x) == IF ~Float THEN x ELSE IF RoundAt(x, 0) >= INF THEN INF ELSE RoundAt(x, 0)

AddF(a, b) == IF a >= INF \/ b >= INF THEN INF ELSE Round(a + b)
(* T::from_usize(k) * width: the count itself is rounded to the format first.  Units: k is a pure number, width in units of 2^EMin. *)
FromUsize(k) == IF ~Float THEN k ELSE RoundAt(k, 0)
MulF(k, b) == IF b >= INF THEN INF ELSE Round(FromUsize(k) * b)
EdgeAt(k) == AddF(mn, MulF(k, w))

MaxBins == IF Float THEN Pow2(P) - 2 ELSE 40

Representable == IF ~Float THEN 0..MaxVal
                 ELSE {m * Pow2(e) : m \in 0..(Pow2(P) - 1), e \in 0..(EMax - EMin)}

Init ==
    /\ mn \in Representable /\ mx \in Representable /\ w \in Representable
    /\ mn < mx /\ w > 0                                        \* EquiSpaced::new accepts
    \* keep the bin count small; for MiniFloat small enough that the count itself is exactly representable
    \* (an f64 represents every count below 2^53 exactly, so a rounded count would be an artefact of the toy precision)
    /\ (mx - mn) \div w <= MaxBins
    /\ edge = mn /\ n = 0 /\ i = 0 /\ edges = <<>> /\ pc = "count"

(* strategies.rs:241-249 *)
CountStep ==
    /\ pc = "count"
    /\ IF edge <= mx
       THEN /\ n' = n + 1
            /\ edge' = IF FixF4 THEN EdgeAt(n + 1) ELSE AddF(edge, w)
            /\ UNCHANGED pc
       ELSE pc' = "build" /\ UNCHANGED <<n, edge>>
    /\ UNCHANGED <<mn, mx, w, i, edges>>

(* strategies.rs:231-239 *)
BuildStep ==
    /\ pc = "build"
    /\ IF i <= n
       THEN edges' = Append(edges, EdgeAt(i)) /\ i' = i + 1 /\ UNCHANGED pc
       ELSE edges' = EdgesFrom(edges) /\ pc' = "done" /\ UNCHANGED i      \* Edges::from: sort + dedup
    /\ UNCHANGED <<mn, mx, w, edge, n>>

Next == CountStep \/ BuildStep
Spec == Init /\ [][Next]_vars /\ WF_vars(Next)

---------------------------------------------------------------------------
(* the loop makes progress (no absorption) and stays within the modelled bin counts *)
SafetyInv == pc = "count" => n * w <= 4 * (mx + w) + 64      \* the count loop cannot run away: n*width stays within a multiple of the range

(* C12 on the bins built *)
DoneOK ==
    pc = "done" =>
        /\ CoverOK(edges, mn, mx)
        /\ (~Float => (EqualWidth(edges) /\ Len(edges) = n + 1))      \* integers: equal widths, advertised count = bins built

Terminates == <>(pc = "done")

(* Integer instance: refinement of the module whose invariants are PROVED for all integers min < max and width > 0 by  *)
(* TLAPS (EquiSpacedAlg.tla, proofs in EquiSpacedProof.tla); the edge construction that follows the count loop is     *)
(* stuttering there.                                                                                                 *)
PP == INSTANCE EquiSpacedAlg WITH pc <- IF pc = "count" THEN "count" ELSE "build"
RefinesProof == PP!Spec
=============================================================================
