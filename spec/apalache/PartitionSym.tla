---------------------------- MODULE PartitionSym ----------------------------
(***************************************************************************)
(* An independent look at the pattern-completeness argument of C15 / C02:  *)
(* the Hoare partition loop of src/sort.rs with *symbolic integer          *)
(* contents* (Apalache, SMT) instead of canonical weak-order patterns.     *)
(* Bounded: arrays of length 1..MAXN, every pivot position, all integer    *)
(* contents at once.  Purely confirmatory; not part of a registered check. *)
(*   apalache-mc check --length=22 --inv=Inv PartitionSym.tla              *)
(***************************************************************************)
EXTENDS Integers

MAXN == 5

VARIABLES
    \* @type: Int;
    n,
    \* @type: Int -> Int;
    a0,
    \* @type: Int -> Int;
    arr,
    \* @type: Int;
    p0,
    \* @type: Int;
    pv,
    \* @type: Int;
    i,
    \* @type: Int;
    j,
    \* @type: Str;
    pc,
    \* @type: Int;
    ret

Idx == 0..(MAXN - 1)

\* @type: (Int -> Int, Int, Int) => (Int -> Int);
Swap(f, x, y) == [k \in Idx |-> IF k = x THEN f[y] ELSE IF k = y THEN f[x] ELSE f[k]]

Init ==
    /\ n \in 1..MAXN
    /\ a0 \in [Idx -> Int]
    /\ arr = a0
    /\ p0 \in 0..(MAXN - 1) /\ p0 < n
    /\ pv = 0 /\ i = 0 /\ j = 0 /\ pc = "Start" /\ ret = 0

Start ==
    /\ pc = "Start"
    /\ pv' = arr[p0]
    /\ arr' = Swap(arr, p0, 0)
    /\ i' = 1 /\ j' = n - 1 /\ pc' = "ScanI"
    /\ UNCHANGED <<n, a0, p0, ret>>

StepI ==
    /\ pc = "ScanI"
    /\ IF i > j THEN pc' = "ScanJ" /\ i' = i
       ELSE IF arr[i] >= pv THEN pc' = "ScanJ" /\ i' = i
       ELSE i' = i + 1 /\ pc' = "ScanI"
    /\ UNCHANGED <<n, a0, arr, p0, pv, j, ret>>

StepJ ==
    /\ pc = "ScanJ"
    /\ IF pv <= arr[j]
       THEN IF j <= 1 THEN pc' = "Cmp" /\ j' = j
            ELSE j' = j - 1 /\ pc' = "ScanJ"
       ELSE pc' = "Cmp" /\ j' = j
    /\ UNCHANGED <<n, a0, arr, p0, pv, i, ret>>

Cmp ==
    /\ pc = "Cmp"
    /\ IF i >= j
       THEN /\ arr' = Swap(arr, 0, i - 1) /\ ret' = i - 1 /\ pc' = "done" /\ UNCHANGED <<i, j>>
       ELSE /\ arr' = Swap(arr, i, j) /\ i' = i + 1 /\ j' = j - 1 /\ pc' = "ScanI" /\ UNCHANGED ret
    /\ UNCHANGED <<n, a0, p0, pv>>

Done == pc = "done" /\ UNCHANGED <<n, a0, arr, p0, pv, i, j, pc, ret>>

Next == Start \/ StepI \/ StepJ \/ Cmp \/ Done

\* cursors stay inside the array while elements are read through them
CursorInv ==
    pc \in {"ScanI", "ScanJ", "Cmp"} => (1 <= i /\ i <= n /\ 0 <= j /\ j <= n - 1)

\* post-condition of C15 for arbitrary integer contents
DoneOK ==
    pc = "done" =>
        /\ 0 <= ret /\ ret < n
        /\ arr[ret] = a0[p0]
        /\ \A x \in Idx : (x < ret => arr[x] < a0[p0]) /\ ((x > ret /\ x < n) => arr[x] >= a0[p0])
        \* k is the number of strictly smaller elements: positions left of ret are exactly those holding smaller values
        /\ \A x \in Idx : x >= n => arr[x] = a0[x]

Inv == CursorInv /\ DoneOK
=============================================================================
