------------------------------ MODULE SelectSym -----------------------------
(***************************************************************************)
(* Quickselect (get_from_sorted_mut, src/sort.rs:109-131) composed with    *)
(* the fine-grained Hoare partition, with *symbolic integer contents* and  *)
(* a nondeterministic pivot at every level, checked by Apalache (SMT) for  *)
(* all arrays of length 1..MAXN, all in-range positions and all pivot      *)
(* sequences at once.  A ghost permutation `perm' tracks where each        *)
(* element came from, so "the array is a permutation of the input" is a    *)
(* first-order invariant.  Together with the arrangement clause at return  *)
(* it implies that the returned element is the true order statistic.       *)
(* Confirmatory (see DESIGN.md section 8.5); e.g.                          *)
(*   apalache-mc check --length=60 --inv=Inv SelectSym.tla                 *)
(***************************************************************************)
EXTENDS Integers

MAXN == 4

VARIABLES
    \* @type: Int;
    n,
    \* @type: Int -> Int;
    a0,
    \* @type: Int -> Int;
    arr,
    \* @type: Int -> Int;
    perm,
    \* @type: Int;
    lo,
    \* @type: Int;
    hi,
    \* @type: Int;
    want0,
    \* @type: Int;
    want,
    \* @type: Int;
    pv,
    \* @type: Int;
    i,
    \* @type: Int;
    j,
    \* @type: Int;
    k,
    \* @type: Str;
    pc,
    \* @type: Int;
    ret

Idx == 0..(MAXN - 1)

\* @type: (Int -> Int, Int, Int) => (Int -> Int);
Swap(f, x, y) == [z \in Idx |-> IF z = x THEN f[y] ELSE IF z = y THEN f[x] ELSE f[z]]

Init ==
    /\ n \in 1..MAXN
    /\ a0 \in [Idx -> Int]
    /\ arr = a0
    /\ perm = [z \in Idx |-> z]
    /\ lo = 0 /\ hi = n
    /\ want0 \in Idx /\ want0 < n /\ want = want0
    /\ pv = 0 /\ i = 0 /\ j = 0 /\ k = 0 /\ pc = "Level" /\ ret = 0

m == hi - lo

Level ==
    /\ pc = "Level"
    /\ IF m = 1
       THEN /\ ret' = arr[lo] /\ pc' = "done"
            /\ UNCHANGED <<arr, perm, pv, i, j>>
       ELSE \E p \in Idx :
              /\ p < m
              /\ pv' = arr[lo + p]
              /\ arr' = Swap(arr, lo + p, lo)
              /\ perm' = Swap(perm, lo + p, lo)
              /\ i' = 1 /\ j' = m - 1 /\ pc' = "ScanI"
              /\ UNCHANGED ret
    /\ UNCHANGED <<n, a0, lo, hi, want0, want, k>>

StepI ==
    /\ pc = "ScanI"
    /\ IF i > j THEN pc' = "ScanJ" /\ i' = i
       ELSE IF arr[lo + i] >= pv THEN pc' = "ScanJ" /\ i' = i
       ELSE i' = i + 1 /\ pc' = "ScanI"
    /\ UNCHANGED <<n, a0, arr, perm, lo, hi, want0, want, pv, j, k, ret>>

StepJ ==
    /\ pc = "ScanJ"
    /\ IF pv <= arr[lo + j]
       THEN IF j <= 1 THEN pc' = "Cmp" /\ j' = j ELSE j' = j - 1 /\ pc' = "ScanJ"
       ELSE pc' = "Cmp" /\ j' = j
    /\ UNCHANGED <<n, a0, arr, perm, lo, hi, want0, want, pv, i, k, ret>>

Cmp ==
    /\ pc = "Cmp"
    /\ IF i >= j
       THEN /\ arr' = Swap(arr, lo, lo + i - 1) /\ perm' = Swap(perm, lo, lo + i - 1)
            /\ k' = i - 1 /\ pc' = "Branch" /\ UNCHANGED <<i, j>>
       ELSE /\ arr' = Swap(arr, lo + i, lo + j) /\ perm' = Swap(perm, lo + i, lo + j)
            /\ i' = i + 1 /\ j' = j - 1 /\ pc' = "ScanI" /\ UNCHANGED k
    /\ UNCHANGED <<n, a0, lo, hi, want0, want, pv, ret>>

Branch ==
    /\ pc = "Branch"
    /\ IF want < k THEN hi' = lo + k /\ pc' = "Level" /\ UNCHANGED <<lo, want, ret>>
       ELSE IF want = k THEN ret' = arr[lo + want] /\ pc' = "done" /\ UNCHANGED <<lo, hi, want>>
       ELSE lo' = lo + k + 1 /\ want' = want - (k + 1) /\ pc' = "Level" /\ UNCHANGED <<hi, ret>>
    /\ UNCHANGED <<n, a0, arr, perm, want0, pv, i, j, k>>

Done == pc = "done" /\ UNCHANGED <<n, a0, arr, perm, lo, hi, want0, want, pv, i, j, k, pc, ret>>

Next == Level \/ StepI \/ StepJ \/ Cmp \/ Branch \/ Done

\* the array is a permutation of the input: arr = a0 o perm with perm injective on Idx
PermInv ==
    /\ \A x \in Idx : perm[x] \in Idx /\ arr[x] = a0[perm[x]]
    /\ \A x \in Idx : \A y \in Idx : x # y => perm[x] # perm[y]
    /\ \A x \in Idx : x >= n => perm[x] = x

\* the window contains the wanted position and is sandwiched between smaller-or-equal and greater-or-equal parts
WindowInv ==
    /\ 0 <= lo /\ lo < hi /\ hi <= n
    /\ pc # "done" => (0 <= want /\ lo + want = want0 /\ want0 < hi)
    /\ \A x \in Idx : \A y \in Idx :
          (x < lo /\ lo <= y /\ y < hi) => arr[x] <= arr[y]
    /\ \A x \in Idx : \A y \in Idx :
          (lo <= y /\ y < hi /\ hi <= x /\ x < n) => arr[y] <= arr[x]

\* C02 at return: arrangement around position want0, and the returned element sits there
DoneOK ==
    pc = "done" =>
        /\ arr[want0] = ret
        /\ \A x \in Idx : (x < want0 => arr[x] <= ret) /\ ((x >= want0 /\ x < n) => arr[x] >= ret)

Inv == PermInv /\ DoneOK
=============================================================================
