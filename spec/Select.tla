------------------------------ MODULE Select -------------------------------
(***************************************************************************)
(* State machine of `get_from_sorted_mut' (src/sort.rs:109-131): one       *)
(* action per recursion level; the pivot drawn from thread_rng() is the    *)
(* nondeterministic choice `\E p \in 0..n-1', so TLC visits every pivot    *)
(* schedule.  `pivots' is a history variable (hidden by the VIEW in the    *)
(* pure model-checking configuration; kept when behaviours are emitted     *)
(* for replay into the real code through the pivot hook).                  *)
(***************************************************************************)
EXTENDS SortOps, Json

CONSTANTS N, NMin,
          OutOfRange,   \* TRUE: also request positions n, n+1, BIG
          Emit          \* TRUE: print one REPLAY line per complete behaviour

VARIABLES init, want0,       \* call-time array and requested position
          arr, lo, hi, want, \* current array, window [lo, hi), position relative to the window
          pc,                \* "run" | "done" | "panic"
          ret,
          pivots,            \* history: <<n, p>> per recursion level
          perm, lastq        \* ghosts for the refinement of SelectAlg: original position of each element; last rearrangement

vars == <<init, want0, arr, lo, hi, want, pc, ret, pivots, perm, lastq>>
view == <<init, want0, arr, lo, hi, want, pc, ret>>

Requests(n) == IF OutOfRange THEN 0..(n + 1) \cup {BIG} ELSE 0..(n - 1)

Init ==
    /\ \E n \in NMin..N : init \in Patterns(n)
    /\ want0 \in Requests(Len(init))
    /\ arr = init /\ lo = 0 /\ hi = Len(init) /\ want = want0
    /\ pc = "run" /\ ret = 0 /\ pivots = <<>>
    /\ perm = [x \in 0..(Len(init) - 1) |-> x] /\ lastq = [x \in 0..(Len(init) - 1) |-> x]

n_ == hi - lo

(* Repaired code only: `assert!(i < n)' at entry of every level. *)
CheckRange ==
    /\ pc = "run" /\ FixF2 /\ want >= n_
    /\ pc' = "panic"
    /\ UNCHANGED <<init, want0, arr, lo, hi, want, ret, pivots, perm, lastq>>

Guarded == pc = "run" /\ (FixF2 => want < n_)

(* sort.rs:115-116: a one-element window answers without looking at i. *)
LenOneShortcut ==
    /\ Guarded /\ n_ = 1
    /\ ret' = At(arr, lo) /\ pc' = "done"
    /\ UNCHANGED <<init, want0, arr, lo, hi, want, pivots, perm, lastq>>

(* sort.rs:119: gen_range(0..0) panics ("cannot sample empty range"). *)
EmptyRangePanic ==
    /\ Guarded /\ n_ = 0
    /\ pc' = "panic"
    /\ UNCHANGED <<init, want0, arr, lo, hi, want, ret, pivots, perm, lastq>>

(* sort.rs:118-129 *)
DrawAndPartition(p) ==
    /\ Guarded /\ n_ >= 2
    /\ LET r == PartitionWin(arr, lo, hi, p)
           k == r[2]
       IN /\ pivots' = Append(pivots, <<n_, p>>)
          /\ IF k = PANIC
             THEN pc' = "panic" /\ UNCHANGED <<arr, lo, hi, want, ret, perm, lastq>>
             ELSE /\ arr' = r[1]
                  /\ lastq' = MatchPerm(arr, r[1])
                  /\ perm' = [x \in DOMAIN perm |-> perm[MatchPerm(arr, r[1])[x]]]
                  /\ IF want < k                                   \* GoLeft
                     THEN hi' = lo + k /\ UNCHANGED <<lo, want, ret, pc>>
                     ELSE IF want = k                              \* Hit
                     THEN ret' = At(r[1], lo + want) /\ pc' = "done" /\ UNCHANGED <<lo, hi, want>>
                     ELSE /\ lo' = lo + k + 1                       \* GoRight
                          /\ want' = want - (k + 1)
                          /\ UNCHANGED <<hi, ret, pc>>
    /\ UNCHANGED <<init, want0>>

Next == CheckRange \/ LenOneShortcut \/ EmptyRangePanic \/ \E p \in 0..(n_ - 1) : DrawAndPartition(p)
Spec == Init /\ [][Next]_vars /\ WF_vars(Next)

---------------------------------------------------------------------------
TypeOK == /\ 0 <= lo /\ lo <= hi /\ hi <= Len(arr) /\ Len(arr) = Len(init)
          /\ pc \in {"run", "done", "panic"}

BagInv == SameBag(arr, init)

(* Everything left of the window is <= everything inside, which is <= everything right of it. *)
SandwichInv ==
    \A x \in 0..(Len(arr) - 1), y \in lo..(hi - 1) :
        /\ x < lo  => At(arr, x) <= At(arr, y)
        /\ x >= hi => At(arr, y) <= At(arr, x)

(* The wanted position stays the same absolute position. *)
WantInv == pc = "run" /\ want0 < Len(init) => (lo + want = want0 /\ want < n_)

DoneOK == pc = "done" => SelectOK(init, want0, ret, arr)

(* C16 *)
PanicIffOutOfRange ==
    /\ pc = "panic" => want0 >= Len(init)
    /\ pc = "done"  => want0 < Len(init)

Terminates == <>(pc # "run")

(* Refinement of the module whose invariants are PROVED for every length, position and pivot sequence by TLAPS   *)
(* (SelectAlg.tla, proofs in SelectProof.tla): every behaviour of this machine with an in-range position is a   *)
(* behaviour of that one - in particular each partition step satisfies the contract assumed there.              *)
ZeroBased(s) == [x \in 0..(Len(s) - 1) |-> s[x + 1]]
PP == INSTANCE SelectAlg WITH Len0 <- Len(init), Want0 <- want0, Arr0 <- ZeroBased(init), arr <- ZeroBased(arr)
RefinesProof == PP!Spec

(* One line per complete behaviour, replayed into the real code by the harness. *)
EmitInv ==
    (Emit /\ pc # "run") =>
        PrintT(<<"REPLAY", ToJson([ev |-> "select", a |-> init, i |-> want0,
                                   pv |-> [x \in DOMAIN pivots |-> pivots[x][2]]])>>)
=============================================================================
