---------------------------- MODULE Correlation ----------------------------
(***************************************************************************)
(* cov / pearson_correlation (correlation.rs) as the code computes them,   *)
(* one action per step: row means, centring, the product of the centred    *)
(* matrix with its transpose, division by n - ddof.  Exact arithmetic: all *)
(* quantities carry their denominator (the mean is sums[i] / n, a centred  *)
(* observation is cen[i][k] / n, a product sum is dot[i][j] / n^2).        *)
(* Checked on every small integer matrix:                                  *)
(*   - the computed matrix is the definition (two-sum form CovNum),        *)
(*     symmetric, with a non-negative diagonal;                            *)
(*   - Cauchy-Schwarz, i.e. |pearson| <= 1, and the unit diagonal;         *)
(*   - pearson is unchanged by a positive affine map of one variable and   *)
(*     changes sign in row and column k when variable k is negated.        *)
(* With Emit = TRUE every complete behaviour is printed as a case of the   *)
(* `corr` event of the num family and replayed into the real code, whose   *)
(* results are then validated by Trace_Num.CorrOK (exact at 2^-16).        *)
(***************************************************************************)
EXTENDS NumOps, Json, TLC
CONSTANTS MaxV,       \* 1..MaxV variables
          MaxN,       \* 2..MaxN observations
          R,          \* observations in -R..R
          Emit
VARIABLES rows, d, pc, sums, cen, dot
vars == <<rows, d, pc, sums, cen, dot>>

NV == Len(rows)
NO == Len(rows[1])
NonConstant(r) == \E x, y \in DOMAIN r : r[x] # r[y]

Init ==
    /\ \E nv \in 1..MaxV : \E n \in 2..MaxN :
          /\ rows \in [1..nv -> [1..n -> (-R)..R]]
          /\ \A i \in 1..nv : NonConstant(rows[i])
          /\ d \in 0..(2 * n - 1)                       \* ddof = d / 2 < n
    /\ pc = "means" /\ sums = <<>> /\ cen = <<>> /\ dot = <<>>

Means  == /\ pc = "means"
          /\ sums' = [i \in 1..NV |-> Sum(rows[i])]
          /\ pc' = "centre" /\ UNCHANGED <<rows, d, cen, dot>>
Centre == /\ pc = "centre"
          /\ cen' = [i \in 1..NV |-> [k \in 1..NO |-> NO * rows[i][k] - sums[i]]]
          /\ pc' = "dot" /\ UNCHANGED <<rows, d, sums, dot>>
Dot    == /\ pc = "dot"
          /\ dot' = [i \in 1..NV |-> [j \in 1..NV |-> Dot2(cen[i], cen[j])]]
          /\ pc' = "done" /\ UNCHANGED <<rows, d, sums, cen>>
Next == Means \/ Centre \/ Dot
Spec == Init /\ [][Next]_vars

(* cov[i][j] = 2 dot[i][j] / (n^2 (2 n - d)) *)
DotOf(rs) == [i \in 1..Len(rs) |-> [j \in 1..Len(rs) |-> CovNum(rs[i], rs[j])]]
Affine(rs, k, c, s) == [i \in 1..Len(rs) |-> IF i = k THEN [x \in DOMAIN rs[i] |-> c * rs[i][x] + s] ELSE rs[i]]

DoneOK == pc = "done" =>
    /\ 2 * NO - d > 0
    \* the definition in its two-sum form: sum (x - xbar)(y - ybar) = sum x y - (sum x)(sum y) / n
    /\ \A i, j \in 1..NV : dot[i][j] = NO * (NO * Dot2(rows[i], rows[j]) - sums[i] * sums[j])
    /\ dot = DotOf(rows)                                                     \* ... which is what Trace_Num.CovOK compares with
    /\ \A i, j \in 1..NV : dot[i][j] = dot[j][i]
    /\ \A i \in 1..NV : dot[i][i] > 0                                        \* non-constant variables: a positive variance
    /\ \A i, j \in 1..NV : dot[i][j] * dot[i][j] <= dot[i][i] * dot[j][j]    \* Cauchy-Schwarz: |r| <= 1
    /\ \A i \in 1..NV : SumSeq(cen[i]) = 0                                   \* centred rows sum to zero

(* r_ij = dot_ij / sqrt(dot_ii dot_jj).  An affine map x -> c x + s of variable k multiplies row and column k of dot by c: *)
(* r is unchanged for c > 0 and changes sign in row / column k (not on the diagonal) for c < 0.                          *)
InvarianceOK == pc = "done" =>
    \A k \in 1..NV : \A c \in {-1, 2, 3} : \A s \in {-1, 0, 2} :
        LET B == DotOf(Affine(rows, k, c, s)) IN
        \A i, j \in 1..NV : B[i][j] = (IF i = k THEN c ELSE 1) * (IF j = k THEN c ELSE 1) * dot[i][j]

(* NOT an invariant (regress/MC_Correlation_collinear.cfg expects the counterexample): the model does reach exactly collinear *)
(* variables, where |r| = 1 and roundoff may carry an implementation outside [-1, 1]                                    *)
StrictCS == pc = "done" => \A i, j \in 1..NV : i # j => dot[i][j] * dot[i][j] < dot[i][i] * dot[j][j]

EmitInv == (Emit /\ pc = "done") =>
    /\ PrintT(<<"REPLAY", ToJson([ev |-> "corr", ty |-> "f64", rows |-> rows, S |-> 1, d |-> d, bexp |-> -1, qe |-> 16, pqe |-> 6, tol |-> 1,
                                  k |-> 0, sexp |-> 3])>>)
    /\ PrintT(<<"REPLAY", ToJson([ev |-> "corr", ty |-> "f32", rows |-> rows, S |-> 1, d |-> d, bexp |-> -1, qe |-> 12, pqe |-> 6, tol |-> 1,
                                  k |-> NV - 1, sexp |-> -2])>>)
=============================================================================
