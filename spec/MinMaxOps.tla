----------------------------- MODULE MinMaxOps -----------------------------
(***************************************************************************)
(* Constant-level specification of min / max / argmin / argmax and their   *)
(* NaN-skipping variants, and of the skip-NaN folds (quantile/mod.rs:289-  *)
(* 421, maybe_nan/mod.rs:337-404).  An array is the sequence `r' of its    *)
(* elements in logical (row-major) order, in rank space: 0 is a missing    *)
(* value (NaN / None), equal elements have equal positive ranks (-0.0 and  *)
(* 0.0 share a rank).                                                      *)
(***************************************************************************)
EXTENDS Prelude

HasNan(r) == \E x \in DOMAIN r : r[x] = 0
KeptSeq(r) == SelectSeq(r, LAMBDA v : v # 0)
MinOf(r) == CHOOSE v \in RangeOf(r) : \A w \in RangeOf(r) : v <= w
MaxOf(r) == CHOOSE v \in RangeOf(r) : \A w \in RangeOf(r) : v >= w

(* C05.  res = [out, pos, rank]: `pos' is the logical (row-major) position of the returned *)
(* index for the arg forms, `rank' the rank of the returned element for the value forms.   *)
PlainOutcome(r) == IF Len(r) = 0 THEN "EmptyInput" ELSE IF HasNan(r) THEN "UndefinedOrder" ELSE "ok"

ArgOK(r, res, wantMin) ==
    /\ res.out = PlainOutcome(r)
    /\ res.out = "ok" => /\ 0 <= res.pos /\ res.pos < Len(r)
                         /\ r[res.pos + 1] = IF wantMin THEN MinOf(r) ELSE MaxOf(r)    \* any tie is acceptable
ValOK(r, res, wantMin) ==
    /\ res.out = PlainOutcome(r)
    /\ res.out = "ok" => res.rank = IF wantMin THEN MinOf(r) ELSE MaxOf(r)

(* C14: the skip forms equal the plain forms on the data without the missing values;     *)
(* when nothing is left: the missing value (value forms) / EmptyInput (index forms).      *)
SkipArgOK(r, res, wantMin) ==
    LET k == KeptSeq(r) IN
    IF Len(k) = 0 THEN res.out = "EmptyInput"
    ELSE /\ res.out = "ok" /\ 0 <= res.pos /\ res.pos < Len(r)
         /\ r[res.pos + 1] = IF wantMin THEN MinOf(k) ELSE MaxOf(k)                    \* a position of the original array holding that value
SkipValOK(r, res, wantMin) ==
    LET k == KeptSeq(r) IN
    /\ res.out = "ok"
    /\ res.rank = IF Len(k) = 0 THEN 0 ELSE IF wantMin THEN MinOf(k) ELSE MaxOf(k)

(* folds and visits see each remaining element exactly once *)
VisitOK(r, visited) == SameBag(visited, KeptSeq(r))
IndexedVisitOK(r, ivisited) ==     \* ivisited: sequence of <<position, rank>>
    /\ Len(ivisited) = Len(KeptSeq(r))
    /\ \A x \in DOMAIN ivisited : ivisited[x][1] \in 0..(Len(r) - 1) /\ r[ivisited[x][1] + 1] = ivisited[x][2] /\ ivisited[x][2] # 0
    /\ \A x, y \in DOMAIN ivisited : x # y => ivisited[x][1] # ivisited[y][1]
=============================================================================
