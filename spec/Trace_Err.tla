----------------------------- MODULE Trace_Err -----------------------------
(***************************************************************************)
(* Validates the error behaviour observed on the real routines against the *)
(* decision table of module Errors (C17): variant and payload.             *)
(***************************************************************************)
EXTENDS Errors, TraceBase

VARIABLE l

Observed(e) == [out |-> e.out, first |-> e.first, second |-> e.second, badq |-> e.badq]

(* the sum-type routines return zero on an empty input *)
ZeroOK(e) == (Has(e, "zero") /\ e.out = "ok" /\ ShapeSize(e.s1) = 0) => e.zero

EventOK(e) ==
    /\ e.ev = "err"
    /\ e.out # "panic"                                        \* none of the conditions surfaces as a panic
    /\ Agree(Documented(e), Observed(e))
    /\ ZeroOK(e)

(* drift: where the property is silent, the code still follows the transcribed guard order *)
Drift(e) == Documented(e).out = "unspecified" /\ Guards(e) # Observed(e)

TInit == l = 1 /\ d = [class |-> "none"] /\ pc = "trace"
TNext ==
    /\ l <= Len(Rec)
    /\ LET e == Rec[l] IN
         IF EventOK(e)
         THEN (IF Drift(e) THEN MarkDrift(l) ELSE TRUE)
         ELSE MarkBad(l)
    /\ l' = l + 1 /\ UNCHANGED <<d, pc>>
TSpec == TInit /\ [][TNext]_<<l, d, pc>>
=============================================================================
