------------------------------ MODULE RemoveNan ----------------------------
(***************************************************************************)
(* Fine-grained state machine of `remove_nan_mut' (maybe_nan/mod.rs:46-71) *)
(* followed by the cast to the NotNan element type (mod.rs:82-107 for      *)
(* f32/f64, mod.rs:188-198 for Option<T>), on a view with arbitrary        *)
(* stride and offset inside a parent buffer.                               *)
(***************************************************************************)
EXTENDS NanOps, Json

CONSTANTS MaxLen,     \* maximal lane length
          MaxStride,  \* strides explored: -MaxStride..MaxStride except 0
          Offsets,    \* set of base offsets (cells before the lowest cell of the view)
          Kinds,      \* subset of {"float", "option"}
          Emit

VARIABLES mem0, vin, kind,   \* call-time buffer, input view, element kind
          mem, i, j, pc,     \* "Start" | "ScanI" | "ScanJ" | "Cmp" | "Cast" | "done"
          vout,
          perm               \* ghost (history): perm[t] = original logical position of the element now at logical position t

vars == <<mem0, vin, kind, mem, i, j, pc, vout, perm>>
SwapF(f, x, y) == [f EXCEPT ![x] = f[y], ![y] = f[x]]

Strides == (-MaxStride..MaxStride) \ {0}

(* A parent buffer holding pattern `pat' (sequence of booleans: TRUE =     *)
(* missing) as a view of stride s starting `o' cells into the buffer; the  *)
(* cell k holds identity k+1 unless missing; cells outside the view are    *)
(* non-missing sentinels.                                                  *)
Span(n, s) == IF n = 0 THEN 0 ELSE (n - 1) * Abs(s) + 1
MkView(n, s, o) == [ptr |-> IF s > 0 THEN o ELSE o + (n - 1) * (-s), len |-> n, stride |-> s]
MkMem(pat, s, o) ==
    LET n == Len(pat)
        v == MkView(n, s, o)
    IN [k \in 1..(o + Span(n, s) + o + 1) |->
          IF \E t \in 0..(n - 1) : VAddr(v, t) = k - 1 /\ pat[t + 1] THEN 0 ELSE k]

Init ==
    /\ \E n \in 0..MaxLen : \E pat \in [1..n -> BOOLEAN] : \E s \in Strides : \E o \in Offsets :
          /\ mem0 = MkMem(pat, s, o)
          /\ vin = MkView(n, s, o)
    /\ kind \in Kinds
    /\ mem = mem0 /\ i = 0 /\ j = 0 /\ pc = "Start" /\ vout = [ptr |-> 0, len |-> 0, stride |-> 0]
    /\ perm = [t \in 0..(vin.len - 1) |-> t]

Nan(t) == IsMissing(VElem(mem, vin, t))

(* mod.rs:47-51 *)
Start ==
    /\ pc = "Start"
    /\ IF vin.len = 0 THEN pc' = "Cast" /\ i' = 0 /\ j' = 0          \* Empty: slice ..0
       ELSE i' = 0 /\ j' = vin.len - 1 /\ pc' = "ScanI"
    /\ UNCHANGED <<mem0, vin, kind, mem, vout, perm>>

(* mod.rs:55-57 *)
StepI ==
    /\ pc = "ScanI"
    /\ IF i <= j /\ ~Nan(i) THEN i' = i + 1 /\ pc' = "ScanI" ELSE i' = i /\ pc' = "ScanJ"
    /\ UNCHANGED <<mem0, vin, kind, mem, j, vout, perm>>

(* mod.rs:59-61 *)
StepJ ==
    /\ pc = "ScanJ"
    /\ IF j > i /\ Nan(j) THEN j' = j - 1 /\ pc' = "ScanJ" ELSE j' = j /\ pc' = "Cmp"
    /\ UNCHANGED <<mem0, vin, kind, mem, i, vout, perm>>

(* mod.rs:63-69 *)
Cmp ==
    /\ pc = "Cmp"
    /\ IF i >= j THEN pc' = "Cast" /\ UNCHANGED <<mem, i, j, perm>>
       ELSE /\ mem' = Swap(mem, VAddr(vin, i), VAddr(vin, j)) /\ perm' = SwapF(perm, i, j)
            /\ i' = i + 1 /\ j' = j - 1 /\ pc' = "ScanI"
    /\ UNCHANGED <<mem0, vin, kind, vout>>

(* slice_move(s![..i]) keeps the first logical element; then the cast. *)
Cast ==
    /\ pc = "Cast"
    /\ vout' = ReturnedView(kind, [vin EXCEPT !.len = i])
    /\ pc' = "done"
    /\ UNCHANGED <<mem0, vin, kind, mem, i, j, perm>>

Next == Start \/ StepI \/ StepJ \/ Cmp \/ Cast
Spec == Init /\ [][Next]_vars /\ WF_vars(Next)

---------------------------------------------------------------------------
Scanning == pc \in {"ScanI", "ScanJ", "Cmp"}

(* Cursors stay inside the view whenever an element is read through them. *)
CursorInv ==
    Scanning => /\ 0 <= i /\ i <= vin.len
                /\ 0 <= j /\ j <= vin.len - 1
                /\ (pc = "ScanI" /\ i <= j) => i <= vin.len - 1

(* Comments of mod.rs:53-54 as an invariant. *)
LoopInv ==
    Scanning => /\ \A t \in 0..(i - 1) : ~Nan(t)
                /\ \A t \in (j + 1)..(vin.len - 1) : Nan(t)

(* C03 in every state: only swaps inside the view. *)
FrameInv == FrameOK(mem0, mem, vin)

DoneOK == pc = "done" => RemoveNanOK(mem0, vin, mem, vout)

(* The functional twin used by trace validation and the SkipNan spec. *)
TwinOK == pc = "done" =>
    LET r == RemoveNanFn(VLane(mem0, vin)) IN r[1] = VLane(mem, vin) /\ r[2] = vout.len

(* Idempotence: applying the compaction to its own result changes nothing. *)
IdempotentOK == pc = "done" =>
    LET kept == VLane(mem, [vin EXCEPT !.len = i]) IN RemoveNanFn(kept) = <<kept, Len(kept)>>

Terminates == <>(pc = "done")

(* Refinement of the module whose invariants are PROVED for every lane length by TLAPS (RemoveNanAlg.tla, proofs in   *)
(* RemoveNanProof.tla): every behaviour of this machine - any stride, offset, element kind - is a behaviour of that *)
(* one, reading the elements of the view in logical order (0 = missing).                                            *)
LogicalLane(m) == [t \in 0..(vin.len - 1) |-> VElem(m, vin, t)]
PP == INSTANCE RemoveNanAlg WITH Len0 <- vin.len, Lane0 <- LogicalLane(mem0), lane <- LogicalLane(mem), ret <- vout.len
RefinesProof == PP!Spec

EmitInv ==
    (Emit /\ pc = "done") =>
        PrintT(<<"REPLAY", ToJson([ev |-> "remove_nan",
                                   lane |-> [t \in 1..vin.len |-> IF IsMissing(VElem(mem0, vin, t - 1)) THEN 0 ELSE t],
                                   stride |-> vin.stride,
                                   off |-> IF vin.stride > 0 THEN vin.ptr ELSE vin.ptr + (vin.len - 1) * vin.stride])>>)
=============================================================================
