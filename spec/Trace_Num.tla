----------------------------- MODULE Trace_Num -----------------------------
(***************************************************************************)
(* Validates observations of the summary statistics (C06, C07, C18),       *)
(* covariance / correlation (C08), deviation measures (C09) and the        *)
(* entropy family (C10) against the exact rational definitions of NumOps.  *)
(***************************************************************************)
EXTENDS NumOps, Layout, TraceBase

VARIABLE l

NANQ == 536870911
BIGQ == 536870900
ERRQ == 536870905
Special(x) == x \in {NANQ, BIGQ, -BIGQ, ERRQ}

LaneSeq(r, sh, ax, t) ==
    LET li == Unravel(RemoveAt(sh, ax), t) IN
    [x \in 1..sh[ax] |-> r[Ravel(sh, InsertAt(li, ax, x - 1)) + 1]]
NL(e) == Prod(RemoveAt(e.shape, e.axis + 1))
Lane(e, t) == LaneSeq(e.r, e.shape, e.axis + 1, t)

(* per-axis forms: every lane against the definition, and (C18) bit-identical to the whole-array routine on that lane *)
AxisOK(e, P(_, _)) ==
    /\ Len(e.res.q) = NL(e)
    /\ \A t \in 0..(NL(e) - 1) : ~Special(e.res.q[t + 1]) /\ P(Lane(e, t), e.res.q[t + 1])
AxisPairOK(e) == e.res.bits = e.res.lane_bits
(* the same agreement at the level of values (C06, C07): relative difference in units of 2^-20, NaN agreeing with NaN *)
AxisRelOK(e) == \A t \in DOMAIN e.res.rel : Abs(e.res.rel[t]) <= 4
IsAxisStat(e) == e.stat \in {"wsum_axis", "wmean_axis", "wvar_axis", "wstd_axis"}
PairOnly(e) == Has(e, "pair_only") /\ e.pair_only

SummOK(e) ==
    /\ e.out = "ok"
    /\ CASE e.stat = "mean"      -> ~Special(e.res) /\ MeanOK(e.r, e.S, e.res, e.qe, e.tol)
         [] e.stat = "mean_int"  -> MeanIntOK(e.r, e.res)
         [] e.stat = "wsum"      -> ~Special(e.res) /\ WSumOK(e.r, e.w, e.S, e.WS, e.res, e.qe, e.tol)
         [] e.stat = "wsum_int"  -> WSumIntOK(e.r, e.w, e.res)
         [] e.stat = "wmean"     -> ~Special(e.res) /\ WMeanOK(e.r, e.w, e.S, e.res, e.qe, e.tol)
         [] e.stat = "wmean_int" -> WMeanIntOK(e.r, e.w, e.res)
         [] e.stat = "wsum_axis_int"  -> AxisOK(e, LAMBDA ln, v : WSumIntOK(ln, e.w, v))
         [] e.stat = "wmean_axis_int" -> AxisOK(e, LAMBDA ln, v : WMeanIntOK(ln, e.w, v))
         [] e.stat = "harmonic"  -> ~Special(e.res) /\ HarmonicOK(e.r, e.res, e.qe, e.tol)
                                    /\ ~Special(e.res_neg) /\ Abs(e.res_neg + e.res) <= e.tol        \* odd function: all-negative data
         [] e.stat = "geometric" -> ~Special(e.res) /\ GeometricOK(e.r, e.res, e.qe, e.tol)
         [] e.stat = "wvar"      -> ~Special(e.res) /\ WVarOK(e.r, e.w, e.S, e.WS, e.d, e.res, e.qe, e.tol) /\ e.res >= -e.tol
         [] e.stat = "wstd"      -> ~Special(e.res) /\ WVarOK(e.r, e.w, e.S, e.WS, e.d, e.res, e.qe, 2 * e.tol)
         [] e.stat = "moment"    ->
                /\ ~Special(e.res.q)
                /\ e.p = 0 => e.res.one                                     \* order 0 is exactly 1
                /\ e.p = 1 => e.res.zero                                    \* order 1 is exactly 0
                /\ e.p >= 2 => MomentOK(e.r, e.S, e.p, e.res.q, e.qe, e.tol)
         [] e.stat = "moments"   ->
                /\ Len(e.res.q) = e.p + 1
                /\ \A k \in 0..e.p : ~Special(e.res.q[k + 1]) /\ (k >= 2 => MomentOK(e.r, e.S, k, e.res.q[k + 1], e.qe, e.tol))
         [] e.stat = "skew"      -> ~Special(e.res.q) /\ SkewOK(e.r, e.res.q, e.res.sgn, e.qe, 2 * e.tol)
         [] e.stat = "kurt"      -> ~Special(e.res) /\ KurtOK(e.r, e.res, e.qe, e.tol)
         [] e.stat = "wsum_axis"  -> AxisOK(e, LAMBDA ln, q : WSumOK(ln, e.w, e.S, e.WS, q, e.qe, e.tol))
         [] e.stat = "wmean_axis" -> AxisOK(e, LAMBDA ln, q : WMeanOK(ln, e.w, e.S, q, e.qe, e.tol))
         [] e.stat = "wvar_axis"  -> AxisOK(e, LAMBDA ln, q : WVarOK(ln, e.w, e.S, e.WS, e.d, q, e.qe, e.tol))
         [] e.stat = "wstd_axis"  -> AxisOK(e, LAMBDA ln, q : WVarOK(ln, e.w, e.S, e.WS, e.d, q, e.qe, 2 * e.tol))
         [] OTHER -> FALSE

(* C18 clauses carried by the summary events *)
SummPairOK(e) ==
    /\ e.out = "ok"
    /\ CASE e.stat = "moments" -> e.res.bits = e.res.single_bits            \* central_moments(p)[k] = central_moment(k), bit for bit
         [] e.stat \in {"wsum_axis", "wmean_axis", "wvar_axis", "wstd_axis"} -> AxisPairOK(e)
         [] OTHER -> TRUE

(* ---- C08 ---- *)
(* covonly: data at an offset of 2^43 (2^14 in f32) times their spread, where only the covariance (whose error is second   *)
(* order in the error of the mean) is judged; the correlation divides by standard deviations that are, legitimately, only  *)
(* accurate to the unit roundoff times that condition number                                                              *)
CovOnly(e) == Has(e, "covonly") /\ e.covonly
PQE(e) == IF Has(e, "pqe") THEN e.pqe ELSE e.qe          \* resolution of the logged correlation (default: that of the covariance)
PearOK(e) ==
    LET nv == Len(e.rows) IN
    /\ \A i, j \in 1..nv :
          /\ Len(e.rows[1]) <= 5 => PearsonOK(e.rows[i], e.rows[j], e.pear[i][j], PQE(e), e.tol)
          /\ Abs(e.pear[i][j]) <= Q(PQE(e)) + e.tol
          /\ Abs(e.pear[i][j] - e.pear[j][i]) <= e.tol
    /\ \A i \in 1..nv : Abs(e.pear[i][i] - Q(PQE(e))) <= e.tol           \* diagonal: one
    \* unchanged by a positive affine rescaling of variable k, sign flip of row/column k under negation
    /\ \A i, j \in 1..nv :
          /\ ~Special(e.pear_scaled[i][j]) /\ Abs(e.pear_scaled[i][j] - e.pear[i][j]) <= e.tol
          /\ ~Special(e.pear_neg[i][j])
          /\ Abs(e.pear_neg[i][j] - (IF (i = e.k + 1) # (j = e.k + 1) THEN -e.pear[i][j] ELSE e.pear[i][j])) <= e.tol
CorrOK(e) ==
    LET nv == Len(e.rows) IN
    /\ e.cov_out = "ok" /\ e.pear_out = "ok"
    /\ \A i, j \in 1..nv :
          /\ ~Special(e.cov[i][j]) /\ ~Special(e.pear[i][j])
          /\ CovOK(e.rows[i], e.rows[j], e.S, e.d, e.cov[i][j], e.qe, e.tol)
          /\ Abs(e.cov[i][j] - e.cov[j][i]) <= e.tol                     \* symmetric
    /\ \A i \in 1..nv : e.cov[i][i] >= -e.tol                          \* diagonal: non-negative
    /\ CovOnly(e) \/ PearOK(e)

(* ---- C09 ---- *)
IsFloatTy(e) == e.ty \in {"f32", "f64"}
Pow10(k) == Pw(10, k)
DevSide(e, a, b, m) ==
    LET n == Len(a)  sq == SqL2(a, b)  l1 == L1(a, b)  S == e.S  q == Q(e.qe) IN
    /\ m.count_eq = CountEq(a, b) /\ m.count_eq + m.count_neq = n
    /\ m.sq = sq /\ m.l1 = l1 /\ m.linf = Linf(a, b)                      \* exact: integers, and grid floats in units of 1/16 resp. 1/4
    /\ ~Special(m.l2sq) /\ Close(m.l2sq, sq, S * S, q, 2 * e.tol)          \* l2_dist^2 = sq_l2_dist
    /\ ~Special(m.mae)  /\ Close(m.mae, l1, S * n, q, e.tol)               \* l1 / n
    /\ ~Special(m.mse)  /\ Close(m.mse, sq, S * S * n, q, e.tol)           \* sq / n
    /\ ~Special(m.rmse2) /\ Close(m.rmse2, sq, S * S * n, q, 2 * e.tol)    \* sqrt of that
    \* 10 log10(maxv^2 / mse) at its exact points: maxv^2 n = 10^k sq
    /\ \A k \in 0..3 : (sq > 0 /\ e.maxv * e.maxv * n = Pow10(k) * sq) => Abs(m.psnr - 10 * k * q) <= e.tol
    \* a finite ratio whenever the arrays differ; the peak scaled by 10^hik moves it by exactly 20 hik dB
    /\ sq > 0 => /\ ~Special(m.psnr) /\ ~Special(m.psnr_hi)
                 /\ Abs(m.psnr_hi - m.psnr - 20 * e.hik * q) <= 2 * e.tol
                 /\ ~Special(m.psnr_neg) /\ Abs(m.psnr_neg - m.psnr) <= e.tol          \* maxv enters through its square: -maxv gives the same ratio
DevOK(e) ==
    /\ DevSide(e, e.a, e.b, e.fwd)
    /\ DevSide(e, e.b, e.a, e.swp)
    /\ e.fwd.count_eq = e.swp.count_eq /\ e.fwd.sq = e.swp.sq /\ e.fwd.l1 = e.swp.l1 /\ e.fwd.linf = e.swp.linf      \* symmetric
    /\ Abs(e.fwd.l2sq - e.swp.l2sq) <= e.tol /\ Abs(e.fwd.mae - e.swp.mae) <= e.tol /\ Abs(e.fwd.mse - e.swp.mse) <= e.tol
    /\ e.same.count_eq = Len(e.a) /\ e.same.count_neq = 0                                                          \* identical arguments
    /\ e.same.sq = 0 /\ e.same.l1 = 0 /\ e.same.linf = 0 /\ e.same.l2sq = 0 /\ e.same.mae = 0 /\ e.same.mse = 0 /\ e.same.rmse2 = 0
    \* float types: the ratio is scale invariant - signals and peak scaled by 2^-40 (mse far below machine epsilon) give the same value
    /\ (Has(e, "psnr_small") /\ SqL2(e.a, e.b) > 0) => (~Special(e.psnr_small) /\ Abs(e.psnr_small - e.fwd.psnr) <= e.tol)

(* NaN (code 99) is equal to nothing, itself included - whatever the operands' memory relation *)
NanC == 99
CountEqNan(a, b) == Cardinality({x \in DOMAIN a : a[x] = b[x] /\ a[x] # NanC})     \* (98 = +inf equals itself)
DevNanOK(e) ==
    /\ e.eq_ab = CountEqNan(e.a, e.b) /\ e.eq_ba = e.eq_ab /\ e.eq_ab + e.neq_ab = Len(e.a)
    /\ e.eq_alias = CountEqNan(e.a, e.a) /\ e.eq_copy = e.eq_alias /\ e.eq_alias + e.neq_alias = Len(e.a)
    \* max |a-b| and sum |a-b| do not depend on where a pair sits (as given, both reversed, both rotated): in particular a NaN
    \* difference has the same effect at every position; without NaN they are the exact values (quarter units)
    /\ \A x \in DOMAIN e.linf : e.linf[x] = e.linf[1] /\ e.linf[x] # ERRQ
    /\ \A x \in DOMAIN e.l1 : e.l1[x] = e.l1[1] /\ e.l1[x] # ERRQ
    /\ \A x \in DOMAIN e.sq : e.sq[x] = e.sq[1] /\ e.sq[x] # ERRQ
    \* the same infinity on both sides (code 97): that difference is inf - inf = NaN, so the sums are NaN wherever the pair sits
    /\ (\E x \in DOMAIN e.a : e.a[x] = 97) => (e.l1[1] = NANQ /\ e.sq[1] = NANQ)
    \* one infinite difference (code 98 on one side only) and no NaN pair: every sum and the maximum are +inf
    /\ ((\E x \in DOMAIN e.a : e.a[x] = 98) /\ \A x \in DOMAIN e.a : e.a[x] # NanC /\ e.b[x] # NanC) =>
           (e.l1[1] = BIGQ /\ e.sq[1] = BIGQ /\ e.linf[1] = BIGQ)
    /\ (\A x \in DOMAIN e.a : e.a[x] \notin {NanC, 98, 97} /\ e.b[x] # NanC) => (e.linf[1] = Linf(e.a, e.b) /\ e.l1[1] = L1(e.a, e.b))

(* ---- C10 ---- *)
NanCode == -1
NegCode == -2
Valid(v) == v >= 0
(* does term i contribute a NaN?  p NaN always; q NaN or negative only where p is non-zero (and not NaN) *)
NanTermP(a) == \E x \in DOMAIN a : a[x] = NanCode
NanTermPQ(a, b) == \E x \in DOMAIN a : a[x] = NanCode \/ (a[x] > 0 /\ b[x] \in {NanCode, NegCode})
InfTermPQ(a, b) == \E x \in DOMAIN a : a[x] > 0 /\ b[x] = 0          \* -p ln 0 = +inf
EntTol(e) == 16 * (Len(e.a) + 2)                                      \* n * 2^-18 in units of 2^-20 / ... see below
(* finite results are compared in units of 2^-20 * 2^-m: resq has qe fractional bits *)
EntClose(e, resq, expected) ==      \* expected: integer in units of 2^-(20+m)
    LET sc == Pw(2, 20 - e.qe) IN
    IF Abs(resq) > 2147483647 \div (sc * Pw(2, e.m)) THEN FALSE              \* too large to be evaluated, hence not close
    ELSE Abs(resq * sc * Pw(2, e.m) - expected) <= (Len(e.a) + 2) * (4 * Pw(2, e.m) + sc * Pw(2, e.m))
(* elements of p far into the subnormal range (ax > 0): their terms are zero at any resolution, but they are not zeros of p *)
A0(e) == [x \in DOMAIN e.a |-> IF e.ax[x] > 0 THEN 0 ELSE e.a[x]]
NoTiny(e) == (\A x \in DOMAIN e.bx : e.bx[x] = 0) /\ (\A x \in DOMAIN e.ax : e.ax[x] = 0)
EntBase(e) ==
    \* entropy of p
    /\ IF NanTermP(e.a) THEN e.H.c = "nan"
       ELSE e.H.c = "fin" /\ EntClose(e, e.H.q, -PLnP(A0(e), e.m))
    /\ IF NanTermP(e.a) THEN e.KLself.c = "nan" ELSE e.KLself.c = "fin" /\ Abs(e.KLself.q) <= 1          \* KL(p,p) = 0
    /\ (~NanTermP(e.a) /\ NoTiny(e) /\ Sum(e.a) = Pw(2, e.m) /\ \A x \in DOMAIN e.a : e.a[x] >= 0) =>
          e.H.q * Pw(2, 20 - e.qe) <= LnT[Len(e.a)] + 4 * (Len(e.a) + 2) * Pw(2, 20 - e.qe)              \* H <= ln n
CEFinOK(e) == e.CE.c = "fin" /\ EntClose(e, e.CE.q, -PLnQx(A0(e), e.b, e.m, e.bx))
EntOK(e) ==
    /\ EntBase(e)
    \* cross entropy and KL
    /\ IF NanTermPQ(e.a, e.b) THEN e.CE.c = "nan" /\ e.KL.c = "nan" /\ e.KLs.c = "nan"
       ELSE IF InfTermPQ(e.a, e.b) THEN e.CE.c = "inf" /\ e.KL.c = "inf" /\ e.KLs.c = "inf"
       ELSE /\ CEFinOK(e)
            /\ e.KL.c = "fin" /\ EntClose(e, e.KL.q, PLnP(A0(e), e.m) - PLnQx(A0(e), e.b, e.m, e.bx))
            \* KL is homogeneous: both operands scaled by 2^kexp towards the top of the range, the result scaled back
            /\ e.KLs.c = "fin" /\ EntClose(e, e.KLs.q, PLnP(A0(e), e.m) - PLnQx(A0(e), e.b, e.m, e.bx))
            \* H(p,q) = H(p) + KL(p,q)
            /\ Abs(e.CE.q - (e.H.q + e.KL.q)) <= 2 * (Len(e.a) + 2)
            \* KL >= 0 for normalised distributions
            /\ ((\A x \in DOMAIN e.a : e.a[x] >= 0 /\ e.b[x] >= 0) /\ NoTiny(e) /\ Sum(e.a) = Pw(2, e.m) /\ Sum(e.b) = Pw(2, e.m)) => e.KL.q >= -(Len(e.a) + 2)

(* Known finding F10 (recorded in known_findings.json, not repaired): kl_divergence evaluates p * ln(q / p); where the      *)
(* quotient q_i / p_i itself exceeds the largest finite value of the type (p_i in the subnormal range, q_i ordinary) it is *)
(* +inf and the divergence comes out as -inf although every exact term is finite (and tiny).  The class: no NaN / infinite *)
(* term, some element with that overflowing quotient, everything else right, KL = -inf.                                    *)
RatioOverflow(e) == \E x \in DOMAIN e.a : e.ax[x] > 0 /\ e.a[x] > 0 /\ e.b[x] > 0 /\ e.bx[x] = 0
KnownF10(e) ==
    /\ e.ev = "ent" /\ ~NanTermPQ(e.a, e.b) /\ RatioOverflow(e)
    /\ EntBase(e)
    /\ IF InfTermPQ(e.a, e.b)
       THEN e.CE.c = "inf" /\ e.KL.c = "nan" /\ e.KLs.c = "nan"          \* the -inf of the overflowing quotient meets a genuine +inf term
       ELSE CEFinOK(e) /\ e.KL.c = "ninf" /\ e.KLs.c = "ninf"

(* operands scaled by 2^dexp (floats, units of 1/4) or 10^dexp (integers) far towards the ends of the range: the squares of the *)
(* differences leave the range, the differences do not.  l1, linf and the counts stay exact and symmetric; mean_abs_err is   *)
(* l1 / n; towards the bottom of the range l2_dist stays finite and between 0 and l1                                         *)
DevScaleOK(e) ==
    LET isf == e.ty \in {"f32", "f64"} IN
    /\ e.ceq = CountEq(e.a, e.b)
    /\ e.l1q = L1(e.a, e.b) /\ e.linfq = Linf(e.a, e.b)
    /\ e.l1s = e.l1q /\ e.linfs = e.linfq
    /\ isf => /\ ((e.ty = "f64" /\ e.dexp > -1000) \/ (e.ty = "f32" /\ e.dexp > -100)) => e.maeq = e.l1q    \* (l1 / n is not exact among subnormals)
              /\ e.l2c \in {"fin", "inf"}
              /\ e.dexp < 0 => (e.l2c = "fin" /\ e.l2le)

(* i8 / i16 / i32 arrays with more elements than i8 / i16 can count and so few, so small differences that every distance fits *)
(* the type: counts and distances exact, the means are the distances divided by the number of elements (logged times n, in   *)
(* units of 2^-10)                                                                                                         *)
DevNarrowOK(e) ==
    LET n == Len(e.a)  sq == SqL2(e.a, e.b)  l1 == L1(e.a, e.b) IN
    /\ e.ceq = CountEq(e.a, e.b) /\ e.ceq + e.cneq = n
    /\ e.sq = sq /\ e.l1 = l1 /\ e.linf = Linf(e.a, e.b)
    /\ Abs(e.maen - 1024 * l1) <= 1 /\ Abs(e.msen - 1024 * sq) <= 1 /\ Abs(e.rmse2n - 1024 * sq) <= 2

EventOK(e) ==
    CASE e.ev = "summ" -> (IF PROP = "C18" THEN SummPairOK(e)
                           ELSE IF PairOnly(e) THEN e.out = "ok" /\ AxisRelOK(e)
                           ELSE SummOK(e) /\ (IsAxisStat(e) => AxisRelOK(e)))
      [] e.ev = "corr" -> CorrOK(e)
      [] e.ev = "corrpair" -> e.out = "ok" /\ (\A x \in DOMAIN e.rel : Abs(e.rel[x]) <= 4) /\ (\A x \in DOMAIN e.diag : Abs(e.diag[x]) <= 4)
      [] e.ev = "dev"  -> DevOK(e)
      [] e.ev = "devnan" -> DevNanOK(e)
      [] e.ev = "devscale" -> DevScaleOK(e)
      [] e.ev = "devnarrow" -> DevNarrowOK(e)
      [] e.ev = "ent"  -> EntOK(e)
      [] OTHER -> FALSE

Init == l = 1
Next ==
    /\ l <= Len(Rec)
    /\ (IF EventOK(Rec[l]) THEN TRUE ELSE (IF KnownF10(Rec[l]) THEN MarkKnown(l) ELSE MarkBad(l)))
    /\ l' = l + 1
Spec == Init /\ [][Next]_l
=============================================================================
