------------------------------- MODULE ViewOps -----------------------------
(***************************************************************************)
(* 1-D views into a parent buffer.  A buffer is a sequence `mem' (cell k   *)
(* is mem[k+1]); a view is a record [ptr, len, stride]: logical element t  *)
(* lives in cell ptr + t*stride (stride may be negative).                  *)
(***************************************************************************)
EXTENDS Prelude

Cell(mem, k) == mem[k + 1]
VAddr(v, t)  == v.ptr + t * v.stride
VAddrs(v)    == {VAddr(v, t) : t \in 0..(v.len - 1)}
VElem(mem, v, t) == Cell(mem, VAddr(v, t))
VLane(mem, v) == [t \in 1..v.len |-> VElem(mem, v, t - 1)]
InBuffer(mem, v) == \A a \in VAddrs(v) : 0 <= a /\ a < Len(mem)
Injective(v) == v.len <= 1 \/ v.stride # 0

(* C03: `after' differs from `before' only by a permutation inside the     *)
(* cells of view v.                                                        *)
FrameOK(before, after, v) ==
    /\ Len(before) = Len(after)
    /\ \A k \in 0..(Len(before) - 1) : k \notin VAddrs(v) => Cell(after, k) = Cell(before, k)
    /\ SameBag(VLane(before, v), VLane(after, v))

=============================================================================
