------------------------------- MODULE Lookup ------------------------------
(***************************************************************************)
(* Exhaustive model of Edges / Bins lookups (bins.rs): every input         *)
(* sequence of length <= MaxLen over a Dom-value domain (duplicates and     *)
(* every order included) and every probe value below, on, between and      *)
(* above the edges.  Comparison-only, hence complete for that size.        *)
(***************************************************************************)
EXTENDS HistOps, Json

CONSTANTS MaxLen, Dom, Emit
VARIABLES input, pc
vars == <<input, pc>>

Init == /\ \E n \in 0..MaxLen : input \in [1..n -> 0..(Dom - 1)]
        /\ pc = "built"
Next == pc = "built" /\ pc' = "done" /\ UNCHANGED input
Spec == Init /\ [][Next]_vars

ed == EdgesFrom(input)
Probes == -1..Dom

(* Edges::from: exactly the distinct input values, strictly increasing *)
EdgesOK == IsSortedStrict(ed) /\ RangeOf(ed) = RangeOf(input)

(* the five-way match on the binary-search outcome is the left-closed right-open lookup *)
LookupOK ==
    \A v \in Probes :
        /\ IndicesOfImpl(ed, v) = BinOf(ed, v)
        /\ BinOf(ed, v) # NONE <=> (Len(ed) >= 2 /\ ed[1] <= v /\ v < ed[Len(ed)])
        /\ BinOf(ed, v) # NONE => (ed[BinOf(ed, v) + 1] <= v /\ v < ed[BinOf(ed, v) + 2])

(* Tie to LookupProof.tla (TLAPS, every length): the binary-search outcome that IndicesOfImpl derives satisfies the     *)
(* contract assumed there, and IndicesOfImpl is the Match function proved correct there.                             *)
LP == INSTANCE LookupAlg
SearchOk(v)  == \E x \in DOMAIN ed : ed[x] = v
SearchPos(v) == IF SearchOk(v) THEN (CHOOSE x \in DOMAIN ed : ed[x] = v) - 1 ELSE Cardinality({x \in DOMAIN ed : ed[x] < v})
ContractOK ==
    \A v \in Probes :
        LET ok == SearchOk(v)  i == SearchPos(v)  n == Len(ed) IN
        /\ i \in 0..n
        /\ ok => (i < n /\ ed[i + 1] = v)
        /\ ~ok => \A x \in 1..n : (x <= i => ed[x] < v) /\ (x > i => ed[x] > v)
MatchOK == \A v \in Probes : LP!Match(Len(ed), SearchOk(v), SearchPos(v)) = IndicesOfImpl(ed, v)

(* number of bins, by-position accessors *)
AccessorsOK ==
    /\ BinsLen(ed) = Max2(Len(ed) - 1, 0)
    /\ \A x \in 0..(BinsLen(ed) - 1) : BinRange(ed, x)[1] < BinRange(ed, x)[2] /\ BinOf(ed, BinRange(ed, x)[1]) = x
    /\ \A x \in 0..(BinsLen(ed) - 2) : BinRange(ed, x)[2] = BinRange(ed, x + 1)[1]      \* bins tile the range

EmitInv == (Emit /\ pc = "done") =>
    PrintT(<<"REPLAY", ToJson([ev |-> "edges", input |-> input, probes |-> [x \in 1..(Dom + 2) |-> x - 2]])>>)
=============================================================================
