------------------------------ MODULE BulkProof -----------------------------
EXTENDS BulkAlg, TLAPS

USE DEF Idx, Assumptions, params, Frame, In, Wanted

LEMMA InitCore == Init => Core
  BY DEF Init, Core, TypeOK, Disjoint, SandwichInv, CoverInv, Post, Settled

LEMMA DropCore == ASSUME Core, NEW f \in frames, Drop(f) PROVE Core'
  BY DEF Core, Drop, TypeOK, Disjoint, SandwichInv, CoverInv, Post, Settled

LEMMA OneCore == ASSUME Core, NEW f \in frames, One(f) PROVE Core'
  <1>0. /\ TypeOK /\ Disjoint /\ SandwichInv /\ CoverInv /\ pc = "run" /\ f.hi - f.lo = 1
        /\ frames' = frames \ {f} /\ arr' = arr /\ pc' = pc /\ Len0' = Len0 /\ W' = W
        /\ f.lo \in Int /\ f.hi \in Int /\ f.hi = f.lo + 1
    BY DEF Core, One, TypeOK
  <1>1. TypeOK' /\ Disjoint' /\ SandwichInv' /\ Post'
    BY <1>0 DEF TypeOK, Disjoint, SandwichInv, Post
  <1>2. CoverInv'
    <2> SUFFICES ASSUME NEW w \in W PROVE (\E g \in frames' : In(g, w)) \/ Settled(w)'
      BY <1>0 DEF CoverInv
    <2>a. CASE In(f, w)
      <3>1a. w \in Idx /\ w \in Int
        BY <1>0 DEF TypeOK
      <3>1b. f.lo <= w /\ w < f.lo + 1
        BY <1>0, <2>a
      <3>1. w = f.lo /\ w \in Idx
        BY <3>1a, <3>1b, <1>0
      <3>2a. \A x \in Idx : (x < f.lo => arr[x] <= arr[w]) /\ (x >= f.hi => arr[w] <= arr[x])
        BY <1>0, <2>a, <3>1 DEF SandwichInv
      <3>2. Settled(w)
        BY <3>2a, <3>1, <1>0 DEF Settled
      <3> QED BY <1>0, <3>2 DEF Settled
    <2>b. CASE ~In(f, w)
      BY <1>0, <2>b DEF CoverInv, Settled
    <2> QED BY <2>a, <2>b
  <1> QED BY <1>1, <1>2 DEF Core

LEMMA EmptyCore == ASSUME Core, NEW f \in frames, EmptyRangePanic(f) PROVE Core'
  BY DEF Core, EmptyRangePanic, TypeOK, Disjoint, SandwichInv, CoverInv, Post, Settled

LEMMA FinishCore == Core /\ Finish => Core'
  BY DEF Core, Finish, TypeOK, Disjoint, SandwichInv, CoverInv, Post, Settled

LEMMA StutterCore == Core /\ UNCHANGED vars => Core'
  BY DEF Core, vars, TypeOK, Disjoint, SandwichInv, CoverInv, Post, Settled

LEMMA SplitCore == ASSUME Core, NEW f \in frames, Split(f) PROVE Core'
  <1>0. /\ TypeOK /\ Disjoint /\ SandwichInv /\ CoverInv /\ pc = "run" /\ f.hi - f.lo >= 2 /\ pc' = pc /\ Len0' = Len0 /\ W' = W
        /\ f \in Frame /\ f.lo \in Int /\ f.hi \in Int /\ 0 <= f.lo /\ f.hi <= Len0 /\ Len0 \in Nat /\ arr \in [Idx -> Int]
    BY DEF Core, Split, TypeOK
  <1>1. PICK k \in 0 .. (f.hi - f.lo - 1) :
          /\ PartitionContract(f, arr, arr', k, lastq')
          /\ frames' = (frames \ {f}) \cup {[lo |-> f.lo, hi |-> f.lo + k], [lo |-> f.lo + k + 1, hi |-> f.hi]}
    BY DEF Split
  <1> DEFINE L == [lo |-> f.lo, hi |-> f.lo + k]
  <1> DEFINE R == [lo |-> f.lo + k + 1, hi |-> f.hi]
  <1> DEFINE p == f.lo + k
  <1>2. /\ arr' \in [Idx -> Int]
        /\ \A x \in Idx : ~In(f, x) => arr'[x] = arr[x]
        /\ \A y \in Idx : In(f, y) => \E y0 \in Idx : In(f, y0) /\ arr'[y] = arr[y0]
        /\ \A y \in Idx : (In(f, y) /\ y < p) => arr'[y] < arr'[p]
        /\ \A y \in Idx : (In(f, y) /\ y > p) => arr'[y] >= arr'[p]
    BY <1>1 DEF PartitionContract, Rearranges
  <1>3. /\ k \in Int /\ 0 <= k /\ k < f.hi - f.lo /\ p \in Idx /\ In(f, p) /\ p \in Int
        /\ L \in Frame /\ R \in Frame /\ L.lo = f.lo /\ L.hi = p /\ R.lo = p + 1 /\ R.hi = f.hi
        /\ L.lo <= L.hi /\ R.lo <= R.hi
        /\ frames' = (frames \ {f}) \cup {L, R}
    BY <1>0, <1>1
  <1>4. \A y \in Idx : arr'[y] \in Int
    BY <1>2
  \* (a) the window's new contents keep the old bounds against everything outside the window
  <1>5. \A x \in Idx : \A y \in Idx : In(f, y) => ((x < f.lo => arr'[x] <= arr'[y]) /\ (x >= f.hi => arr'[y] <= arr'[x]))
    <2> SUFFICES ASSUME NEW x \in Idx, NEW y \in Idx, In(f, y)
                 PROVE (x < f.lo => arr'[x] <= arr'[y]) /\ (x >= f.hi => arr'[y] <= arr'[x])
      OBVIOUS
    <2>1. PICK y0 \in Idx : In(f, y0) /\ arr'[y] = arr[y0]
      BY <1>2
    <2>2. x < f.lo => (arr'[x] = arr[x] /\ arr[x] <= arr[y0])
      BY <1>0, <1>2, <2>1 DEF SandwichInv
    <2>3. x >= f.hi => (arr'[x] = arr[x] /\ arr[y0] <= arr[x])
      BY <1>0, <1>2, <2>1 DEF SandwichInv
    <2> QED BY <2>1, <2>2, <2>3
  \* (b) an element of another pending window keeps its value and its bounds
  <1>6. ASSUME NEW g \in frames, g # f
        PROVE  /\ g.hi <= f.lo \/ f.hi <= g.lo
               /\ \A y \in Idx : In(g, y) => (arr'[y] = arr[y] /\ ~In(f, y))
    <2>1. g.hi <= f.lo \/ f.hi <= g.lo
      BY <1>0, <1>6 DEF Disjoint
    <2>2. g \in Frame /\ g.lo \in Int /\ g.hi \in Int
      BY <1>0 DEF TypeOK
    <2> QED BY <1>0, <1>2, <2>1, <2>2
  <1>7. TypeOK'
    BY <1>0, <1>2, <1>3 DEF TypeOK
  <1>8. Disjoint'
    <2> SUFFICES ASSUME NEW g \in frames', NEW h \in frames', g # h PROVE g.hi <= h.lo \/ h.hi <= g.lo
      BY DEF Disjoint
    <2>1. \A u \in frames : u # f => (u.lo \in Int /\ u.hi \in Int /\ u.lo <= u.hi /\ (u.hi <= f.lo \/ f.hi <= u.lo))
      BY <1>0 DEF TypeOK, Disjoint
    <2>2. (g = L \/ g = R \/ (g \in frames /\ g # f)) /\ (h = L \/ h = R \/ (h \in frames /\ h # f))
      BY <1>3
    <2> QED BY <1>0, <1>3, <2>1, <2>2 DEF Disjoint
  <1>9. SandwichInv'
    <2> SUFFICES ASSUME NEW g \in frames', NEW x \in Idx, NEW y \in Idx, In(g, y)
                 PROVE (x < g.lo => arr'[x] <= arr'[y]) /\ (x >= g.hi => arr'[y] <= arr'[x])
      BY <1>0 DEF SandwichInv
    <2>a. CASE g = L
      <3>1. In(f, y) /\ y < p /\ arr'[y] < arr'[p]
        BY <1>0, <1>2, <1>3, <2>a
      <3>2. x < f.lo => arr'[x] <= arr'[y]
        BY <1>5, <3>1
      <3>3. (x >= p /\ x < f.hi) => arr'[p] <= arr'[x]
        BY <1>0, <1>2, <1>3, <1>4
      <3>4. x >= f.hi => arr'[y] <= arr'[x]
        BY <1>5, <3>1
      <3> QED BY <1>3, <1>4, <2>a, <3>1, <3>2, <3>3, <3>4
    <2>b. CASE g = R
      <3>1. In(f, y) /\ y > p /\ arr'[y] >= arr'[p]
        BY <1>0, <1>2, <1>3, <2>b
      <3>2. x < f.lo => arr'[x] <= arr'[y]
        BY <1>5, <3>1
      <3>3. (x >= f.lo /\ x <= p) => arr'[x] <= arr'[p]
        BY <1>0, <1>2, <1>3, <1>4
      <3>4. x >= f.hi => arr'[y] <= arr'[x]
        BY <1>5, <3>1
      <3> QED BY <1>3, <1>4, <2>b, <3>1, <3>2, <3>3, <3>4
    <2>c. CASE g \in frames /\ g # f
      <3>1. (g.hi <= f.lo \/ f.hi <= g.lo) /\ arr'[y] = arr[y] /\ ~In(f, y) /\ g.lo \in Int /\ g.hi \in Int
        BY <1>0, <1>6, <2>c DEF TypeOK
      <3>2. (x < g.lo => arr[x] <= arr[y]) /\ (x >= g.hi => arr[y] <= arr[x])
        BY <1>0, <2>c DEF SandwichInv
      <3>3. CASE ~In(f, x)
        BY <1>2, <3>1, <3>2, <3>3
      <3>4. CASE In(f, x)
        <4>1. PICK x0 \in Idx : In(f, x0) /\ arr'[x] = arr[x0]
          BY <1>2, <3>4
        <4>2. (x < g.lo <=> x0 < g.lo) /\ (x >= g.hi <=> x0 >= g.hi)
          BY <1>0, <3>1, <3>4, <4>1
        <4>3. (x0 < g.lo => arr[x0] <= arr[y]) /\ (x0 >= g.hi => arr[y] <= arr[x0])
          BY <1>0, <2>c, <4>1 DEF SandwichInv
        <4> QED BY <3>1, <4>1, <4>2, <4>3
      <3> QED BY <3>3, <3>4
    <2> QED BY <1>3, <2>a, <2>b, <2>c
  <1>10. CoverInv'
    <2> SUFFICES ASSUME NEW w \in W PROVE (\E g \in frames' : In(g, w)) \/ Settled(w)'
      BY <1>0 DEF CoverInv
    <2>0. w \in Idx /\ w \in Int
      BY <1>0 DEF TypeOK
    <2>a. CASE In(f, w)
      <3>1. CASE w < p
        BY <1>3, <2>0, <2>a, <3>1
      <3>2. CASE w > p
        BY <1>3, <2>0, <2>a, <3>2
      <3>3. CASE w = p
        <4> SUFFICES ASSUME NEW x \in Idx PROVE (x < w => arr'[x] <= arr'[w]) /\ (x > w => arr'[w] <= arr'[x])
          BY <1>0 DEF Settled
        <4>1. x < f.lo => arr'[x] <= arr'[p]
          BY <1>5, <1>3
        <4>2. x >= f.hi => arr'[p] <= arr'[x]
          BY <1>5, <1>3
        <4>3. (x >= f.lo /\ x < p) => arr'[x] <= arr'[p]
          BY <1>0, <1>2, <1>3, <1>4
        <4>4. (x > p /\ x < f.hi) => arr'[p] <= arr'[x]
          BY <1>0, <1>2, <1>3, <1>4
        <4> QED BY <1>0, <1>3, <3>3, <4>1, <4>2, <4>3, <4>4
      <3> QED BY <2>0, <1>3, <3>1, <3>2, <3>3
    <2>b. CASE ~In(f, w)
      <3>1. CASE \E g \in frames : In(g, w)
        <4>1. PICK g \in frames : In(g, w)
          BY <3>1
        <4>2. g # f /\ g \in frames'
          BY <1>3, <2>b, <4>1
        <4> QED BY <4>1, <4>2
      <3>2. CASE Settled(w)
        <4> SUFFICES ASSUME NEW x \in Idx PROVE (x < w => arr'[x] <= arr'[w]) /\ (x > w => arr'[w] <= arr'[x])
          BY <1>0 DEF Settled
        <4>1. arr'[w] = arr[w] /\ (w < f.lo \/ w >= f.hi)
          BY <1>0, <1>2, <2>0, <2>b
        <4>2. CASE ~In(f, x)
          BY <1>2, <3>2, <4>1, <4>2, <2>0 DEF Settled
        <4>3. CASE In(f, x)
          <5>1. PICK x0 \in Idx : In(f, x0) /\ arr'[x] = arr[x0]
            BY <1>2, <4>3
          <5>2. (x < w <=> x0 < w) /\ (x > w <=> x0 > w)
            BY <1>0, <2>0, <4>1, <4>3, <5>1
          <5>3. (x0 < w => arr[x0] <= arr[w]) /\ (x0 > w => arr[w] <= arr[x0])
            BY <3>2, <5>1, <2>0 DEF Settled
          <5> QED BY <4>1, <5>1, <5>2, <5>3
        <4> QED BY <4>2, <4>3
      <3> QED BY <1>0, <3>1, <3>2 DEF CoverInv
    <2> QED BY <2>a, <2>b
  <1>11. Post'
    BY <1>0 DEF Post
  <1> QED BY <1>7, <1>8, <1>9, <1>10, <1>11 DEF Core

LEMMA InitPerm == Init => PermInv
  BY DEF Init, PermInv

LEMMA SplitPerm == ASSUME Inv, NEW f \in frames, Split(f) PROVE PermInv'
  <1>0. PermInv /\ Len0' = Len0 /\ Arr0' = Arr0
    BY DEF Inv, Split
  <1>1. PICK k \in 0 .. (f.hi - f.lo - 1) : PartitionContract(f, arr, arr', k, lastq')
    BY DEF Split
  <1> DEFINE q == lastq'
  <1>2. q \in [Idx -> Idx] /\ perm' = [x \in Idx |-> perm[q[x]]]
    BY DEF Split
  <1>3. /\ \A x \in Idx : \A y \in Idx : x # y => q[x] # q[y]
        /\ \A x \in Idx : arr'[x] = arr[q[x]]
        /\ \A x \in Idx : q[x] \in Idx
    BY <1>1, <1>2 DEF PartitionContract, Rearranges
  <1>4. /\ perm \in [Idx -> Idx] /\ Arr0 \in [Idx -> Int]
        /\ \A x \in Idx : \A y \in Idx : x # y => perm[x] # perm[y]
        /\ \A x \in Idx : arr[x] = Arr0[perm[x]]
    BY <1>0 DEF PermInv
  <1>5. /\ perm' \in [Idx -> Idx]
        /\ \A x \in Idx : \A y \in Idx : x # y => perm'[x] # perm'[y]
        /\ \A x \in Idx : arr'[x] = Arr0[perm'[x]]
    <2> HIDE DEF Idx
    <2> QED BY <1>2, <1>3, <1>4
  <1> QED BY <1>0, <1>4, <1>5 DEF PermInv

LEMMA KeepPerm == ASSUME PermInv, UNCHANGED <<arr, perm, Arr0, Len0>> PROVE PermInv'
  BY DEF PermInv

THEOREM Safety == Spec => []Inv
  <1>1. Inv /\ [Next]_vars => Inv'
    <2> SUFFICES ASSUME Inv, [Next]_vars PROVE Inv'
      OBVIOUS
    <2>1. Core /\ PermInv
      BY DEF Inv
    <2>a. CASE Finish
      BY <2>1, <2>a, FinishCore, KeepPerm DEF Inv, Finish
    <2>b. CASE \E f \in frames : Drop(f)
      BY <2>1, <2>b, DropCore, KeepPerm DEF Inv, Drop
    <2>c. CASE \E f \in frames : One(f)
      BY <2>1, <2>c, OneCore, KeepPerm DEF Inv, One
    <2>d. CASE \E f \in frames : EmptyRangePanic(f)
      BY <2>1, <2>d, EmptyCore, KeepPerm DEF Inv, EmptyRangePanic
    <2>e. CASE \E f \in frames : Split(f)
      BY <2>1, <2>e, SplitCore, SplitPerm DEF Inv
    <2>f. CASE UNCHANGED vars
      BY <2>1, <2>f, StutterCore, KeepPerm DEF Inv, vars
    <2> QED BY <2>a, <2>b, <2>c, <2>d, <2>e, <2>f DEF Next
  <1>2. Init => Inv
    BY InitCore, InitPerm DEF Inv
  <1>. QED  BY <1>1, <1>2, PTL DEF Spec
=============================================================================
