------------------------------- MODULE BulkAlg ------------------------------
(***************************************************************************)
(* `get_many_from_sorted_mut' (src/sort.rs:133-144, 198-298) on an array   *)
(* of ANY length, for ANY set of in-range positions and ANY sequence of    *)
(* pivots.  The divide-and-conquer recursion is a set of pending windows    *)
(* [lo, hi) (the explicit stack of Bulk.tla without its order); a step     *)
(* takes one window, partitions it (by the contract proved for every       *)
(* length in PartitionProof.tla), answers the wanted position that the     *)
(* pivot landed on and leaves the two sides pending.  BulkProof.tla proves *)
(* with TLAPS that in every reachable state                                *)
(*   - the pending windows are disjoint and each is sandwiched between     *)
(*     what lies left and right of it,                                     *)
(*   - every wanted position is inside a pending window or already         *)
(*     settled: everything before it is <= it, everything after it >= it   *)
(*     (so the value found there is the order statistic, and later steps   *)
(*     cannot disturb it),                                                 *)
(*   - a pending window that still holds a wanted position is never empty  *)
(*     (the `gen_range(0..0)' panic cannot happen),                        *)
(* and that at return every wanted position is settled (C02, bulk form).   *)
(* Tied to Bulk.tla by TLC: property RefinesProof of that module.          *)
(***************************************************************************)
EXTENDS Integers

VARIABLES Len0, W, Arr0,     \* parameters: length, set of wanted positions, initial contents (never change)
          arr, frames, pc,
          perm, lastq        \* ghosts: original position of each element; the rearrangement of the last partition step
vars == <<Len0, W, Arr0, arr, frames, pc, perm, lastq>>
params == <<Len0, W, Arr0>>

Idx == 0 .. (Len0 - 1)
Assumptions == Len0 \in Nat /\ W \subseteq Idx
Frame == [lo : 0 .. Len0, hi : 0 .. Len0]
In(f, x) == f.lo <= x /\ x < f.hi
Wanted(f) == \E w \in W : In(f, w)

Init ==
    /\ Assumptions
    /\ arr \in [Idx -> Int] /\ Arr0 = arr
    /\ perm = [x \in Idx |-> x] /\ lastq = [x \in Idx |-> x]
    /\ frames = IF W = {} THEN {} ELSE {[lo |-> 0, hi |-> Len0]}
    /\ pc = "run"

(* sort.rs:238-241: nothing wanted in this window *)
Drop(f) ==
    /\ pc = "run" /\ f \in frames /\ ~Wanted(f)
    /\ frames' = frames \ {f}
    /\ UNCHANGED <<arr, pc, params, perm, lastq>>

(* sort.rs:244-250: a one-element window answers the position left in it *)
One(f) ==
    /\ pc = "run" /\ f \in frames /\ Wanted(f) /\ f.hi - f.lo = 1
    /\ frames' = frames \ {f}
    /\ UNCHANGED <<arr, pc, params, perm, lastq>>

(* sort.rs:254: gen_range(0..0) on a window that still holds a wanted position *)
EmptyRangePanic(f) ==
    /\ pc = "run" /\ f \in frames /\ Wanted(f) /\ f.hi - f.lo = 0
    /\ pc' = "panic"
    /\ UNCHANGED <<arr, frames, params, perm, lastq>>

(* the partition contract on window f (PartitionProof): a rearrangement by an injective q that is the identity outside the *)
(* window and maps the window into itself, with the arrangement around f.lo + k                                           *)
Rearranges(f, q, a, b) ==
    /\ q \in [Idx -> Idx]
    /\ \A x \in Idx : ~In(f, x) => q[x] = x
    /\ \A y \in Idx : In(f, y) => In(f, q[y])
    /\ \A x \in Idx : \A y \in Idx : x # y => q[x] # q[y]
    /\ \A x \in Idx : b[x] = a[q[x]]
PartitionContract(f, a, b, k, q) ==
    /\ b \in [Idx -> Int]
    /\ Rearranges(f, q, a, b)
    /\ \A y \in Idx : (In(f, y) /\ y < f.lo + k) => b[y] < b[f.lo + k]
    /\ \A y \in Idx : (In(f, y) /\ y > f.lo + k) => b[y] >= b[f.lo + k]

(* sort.rs:253-297, any pivot *)
Split(f) ==
    /\ pc = "run" /\ f \in frames /\ Wanted(f) /\ f.hi - f.lo >= 2
    /\ lastq' \in [Idx -> Idx]
    /\ perm' = [x \in Idx |-> perm[lastq'[x]]]
    /\ \E k \in 0 .. (f.hi - f.lo - 1) :
          /\ PartitionContract(f, arr, arr', k, lastq')
          /\ frames' = (frames \ {f}) \cup {[lo |-> f.lo, hi |-> f.lo + k], [lo |-> f.lo + k + 1, hi |-> f.hi]}
    /\ UNCHANGED <<pc, params>>

Finish ==
    /\ pc = "run" /\ frames = {}
    /\ pc' = "done"
    /\ UNCHANGED <<arr, frames, params, perm, lastq>>

Next == Finish \/ \E f \in frames : Drop(f) \/ One(f) \/ EmptyRangePanic(f) \/ Split(f)
Spec == Init /\ [][Next]_vars

---------------------------------------------------------------------------
TypeOK ==
    /\ Assumptions
    /\ arr \in [Idx -> Int]
    /\ frames \subseteq Frame
    /\ \A f \in frames : f.lo <= f.hi
    /\ pc \in {"run", "done"}                                   \* never "panic"

Disjoint == \A f \in frames : \A g \in frames : f # g => (f.hi <= g.lo \/ g.hi <= f.lo)

(* everything left of a pending window is <= everything inside, which is <= everything right of it *)
SandwichInv ==
    \A f \in frames : \A x \in Idx : \A y \in Idx :
        In(f, y) => ((x < f.lo => arr[x] <= arr[y]) /\ (x >= f.hi => arr[y] <= arr[x]))

Settled(w) == \A x \in Idx : (x < w => arr[x] <= arr[w]) /\ (x > w => arr[w] <= arr[x])

(* every wanted position is pending or settled *)
CoverInv == \A w \in W : (\E f \in frames : In(f, w)) \/ Settled(w)

(* C02 at return (arrangement clause of the bulk form) *)
Post == pc = "done" => \A w \in W : Settled(w)

(* C03 for every length: the array is at all times a rearrangement of the original one *)
PermInv ==
    /\ Arr0 \in [Idx -> Int]
    /\ perm \in [Idx -> Idx]
    /\ \A x \in Idx : \A y \in Idx : x # y => perm[x] # perm[y]
    /\ \A x \in Idx : arr[x] = Arr0[perm[x]]

Core == TypeOK /\ Disjoint /\ SandwichInv /\ CoverInv /\ Post
Inv == Core /\ PermInv
=============================================================================
