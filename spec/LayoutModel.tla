---------------------------- MODULE LayoutModel ----------------------------
(***************************************************************************)
(* Enumerates view geometries inside a small parent buffer: base shapes of *)
(* up to MaxDim axes (extent <= MaxExt), C or F order, a slice with step   *)
(* in -MaxStep..MaxStep on every axis, and an axis permutation.  Checked   *)
(* for every reachable geometry: all addresses lie inside the parent,      *)
(* distinct index tuples have distinct addresses, the lanes along any axis *)
(* partition the view's address set, and the lane views of Layout.LaneOf   *)
(* enumerate exactly the elements of the lane in logical order.  Every     *)
(* descriptor is emitted and materialised by the harness with ndarray; the *)
(* trace validators compare ndarray's (pointer, shape, strides) with       *)
(* LayGeom, which binds this memory model to the real library.             *)
(***************************************************************************)
EXTENDS Layout, Json

CONSTANTS MaxDim, MaxExt, MaxStep, Emit
VARIABLES lay, pc
vars == <<lay, pc>>

Steps == (-MaxStep..MaxStep) \ {0}
Perms(n) == {p \in [1..n -> 0..(n - 1)] : \A a, b \in 1..n : a # b => p[a] # p[b]}
Slices(d) == {<<s, e, st>> : s \in 0..d, e \in 0..d, st \in Steps} \cap {t \in (0..d) \X (0..d) \X Steps : t[1] <= t[2]}

Init ==
    /\ \E n \in 1..MaxDim : \E ps \in [1..n -> 1..MaxExt] : \E o \in {"C", "F"} : \E pm \in Perms(n) :
          \E sl \in [1..n -> UNION {Slices(d) : d \in 1..MaxExt}] :
             /\ \A k \in 1..n : sl[k] \in Slices(ps[k])
             /\ lay = [pshape |-> ps, order |-> o, sl |-> sl, perm |-> pm]
    /\ pc = "built"
Next == pc = "built" /\ pc' = "done" /\ UNCHANGED lay
Spec == Init /\ [][Next]_vars

g == LayGeom(lay)
ParentSize == Prod(lay.pshape)

InParent == \A t \in 0..(Size(g) - 1) : 0 <= AddrAt(g, t) /\ AddrAt(g, t) < ParentSize
NoAlias == NonAliasing(g)
LanesPartition ==
    \A ax \in 1..NDim(g) :
        LET lanes == {LaneOf(g, ax, t) : t \in 0..(NumLanes(g, ax) - 1)}
            addrs(v) == {v.ptr + x * v.stride : x \in 0..(v.len - 1)}
        IN /\ UNION {addrs(v) : v \in lanes} = AddrSet(g)
           /\ \A v1, v2 \in lanes : v1 # v2 => (g.shape[ax] = 0 \/ addrs(v1) \cap addrs(v2) = {})
(* the logical shape is what slicing and permuting should give *)
ShapeOK ==
    \A k \in 1..NDim(g) :
        LET a == lay.perm[k] + 1  m == lay.sl[a][2] - lay.sl[a][1]  st == Abs(lay.sl[a][3])
        IN g.shape[k] = (m + st - 1) \div st

EmitInv == (Emit /\ pc = "done") => PrintT(<<"REPLAY", ToJson([ev |-> "layout", lay |-> lay])>>)
=============================================================================
