---------------------------- MODULE Trace_Layout ---------------------------
(***************************************************************************)
(* C20: one event per (logical array, routine) lists the routine's result  *)
(* on every representation of the array (memory order, stepped / reversed  *)
(* / permuted views into a larger parent, owned / view / mutable view /    *)
(* ArcArray / CowArray, static / dynamic dimensionality).                  *)
(*   exact    results are identical (order-based and integer results)      *)
(*   approx   float sums agree within the quantum (4 * 2^-20)              *)
(*   arg*     the returned index is a logical index of an extremal element *)
(*            of the logical array (ties may be broken differently)        *)
(* "geom" events bind the Layout model to ndarray (drift level).           *)
(***************************************************************************)
EXTENDS MinMaxOps, Layout, TraceBase

VARIABLE l

NANQ == 536870911
Tol == 4

SameExact(e) == \A x \in DOMAIN e.reps : e.reps[x].v = e.reps[1].v
SameApprox(e) ==
    \A x \in DOMAIN e.reps :
        /\ Len(e.reps[x].v) = Len(e.reps[1].v)
        /\ \A k \in DOMAIN e.reps[x].v :
              LET a == e.reps[x].v[k]  b == e.reps[1].v[k] IN
              IF a = NANQ \/ b = NANQ THEN a = b ELSE Abs(a - b) <= Tol

InShape(idx, sh) == Len(idx) = Len(sh) /\ \A k \in DOMAIN sh : 0 <= idx[k] /\ idx[k] < sh[k]
ArgRes(e, v) == IF v = <<-1>> THEN [out |-> "err", pos |-> 0, rank |-> 0]
                ELSE IF InShape(v, e.shape) THEN [out |-> "ok", pos |-> Ravel(e.shape, v), rank |-> 0]
                ELSE [out |-> "bad", pos |-> 0, rank |-> 0]
PlainArgOK(e, wantMin) ==
    \A x \in DOMAIN e.reps :
        LET res == ArgRes(e, e.reps[x].v) IN
        IF Len(e.r) = 0 \/ HasNan(e.r) THEN res.out = "err"
        ELSE res.out = "ok" /\ e.r[res.pos + 1] = (IF wantMin THEN MinOf(e.r) ELSE MaxOf(e.r))
SkipArgsOK(e, wantMin) ==
    \A x \in DOMAIN e.reps :
        LET res == ArgRes(e, e.reps[x].v)  k == KeptSeq(e.r) IN
        IF Len(k) = 0 THEN res.out = "err"
        ELSE res.out = "ok" /\ e.r[res.pos + 1] = (IF wantMin THEN MinOf(k) ELSE MaxOf(k))

LayoutEvOK(e) ==
    /\ e.routine # "PANIC"
    /\ e.nreps = e.want /\ Len(e.reps) = e.want /\ e.want \in {2, 7}      \* the routine answered on every representation (7) / on the aliasing and the copied operand (2)
    /\ CASE e.kind = "exact"   -> SameExact(e)
         [] e.kind = "approx"  -> SameApprox(e)
         \* an index result designates an extremum AND is the same index on every representation (among tied extrema too)
         [] e.kind = "argmin"  -> PlainArgOK(e, TRUE) /\ SameExact(e)
         [] e.kind = "argmax"  -> PlainArgOK(e, FALSE) /\ SameExact(e)
         [] e.kind = "sargmin" -> SkipArgsOK(e, TRUE) /\ SameExact(e)
         [] e.kind = "sargmax" -> SkipArgsOK(e, FALSE) /\ SameExact(e)
         [] OTHER -> FALSE

EventOK(e) ==
    CASE e.ev = "layout" -> LayoutEvOK(e)
      [] e.ev = "geom"   -> TRUE
      [] OTHER -> FALSE
Drift(e) == e.ev = "geom" /\ Size(e.g) > 0 /\ LayGeom(e.lay) # e.g

Init == l = 1
Next ==
    /\ l <= Len(Rec)
    /\ LET e == Rec[l] IN
         IF EventOK(e) THEN (IF Drift(e) THEN MarkDrift(l) ELSE TRUE) ELSE MarkBad(l)
    /\ l' = l + 1
Spec == Init /\ [][Next]_l
=============================================================================
