--------------------------- MODULE PartitionProof ---------------------------
(***************************************************************************)
(* TLAPS proofs about PartitionAlg: the invariant Inv (cursor safety, loop *)
(* invariant, "panic" exactly for an out-of-range pivot position,          *)
(* arrangement clauses at return, and - through a ghost permutation - the  *)
(* array is always a rearrangement of the original one) is inductive for   *)
(* arrays of every length, every integer contents and every pivot          *)
(* position.      tlapm PartitionProof.tla                                 *)
(***************************************************************************)
EXTENDS PartitionAlg, TLAPS

USE DEF Assumptions, params, InRange, Running, Idx

LEMMA InitCore == Init => Core
  BY DEF Init, Core, TypeOK, NoPanicInRange, OorInv, CursorInv, LoopInv, Post, StartOK
LEMMA StartCore == Core /\ Start => Core'
  BY DEF Core, Start, TypeOK, NoPanicInRange, OorInv, CursorInv, LoopInv, Post, StartOK, Swap
LEMMA StepICore == Core /\ StepI => Core'
  BY DEF Core, StepI, TypeOK, NoPanicInRange, OorInv, CursorInv, LoopInv, Post, StartOK
LEMMA StepJCore == Core /\ StepJ => Core'
  BY DEF Core, StepJ, TypeOK, NoPanicInRange, OorInv, CursorInv, LoopInv, Post, StartOK
LEMMA CmpCore == Core /\ Cmp => Core'
  BY DEF Core, Cmp, TypeOK, NoPanicInRange, OorInv, CursorInv, LoopInv, Post, StartOK, Swap
LEMMA StutterCore == Core /\ UNCHANGED vars => Core'
  BY DEF Core, vars, TypeOK, NoPanicInRange, OorInv, CursorInv, LoopInv, Post, StartOK

LEMMA InitPerm == Init => PermInv
  BY DEF Init, PermInv

LEMMA StartPerm == Inv /\ Start => PermInv'
  <1> SUFFICES ASSUME Inv, Start PROVE PermInv'
    OBVIOUS
  <1>0. arr \in [Idx -> Int] /\ Arr0 \in [Idx -> Int] /\ Arr0' = Arr0 /\ Len0' = Len0 /\ PermInv
    BY DEF Inv, Core, TypeOK, Start
  <1>a. CASE P0 >= Len0
    BY <1>0, <1>a DEF Start, PermInv
  <1>b. CASE ~(P0 >= Len0)
    <2>1. arr' = Swap(arr, P0, 0) /\ perm' = Swap(perm, P0, 0) /\ P0 \in Idx /\ 0 \in Idx
      BY <1>b DEF Start, Inv, Core, TypeOK
    <2>2. /\ perm \in [Idx -> Idx] /\ (\A u \in Idx : \A v \in Idx : u # v => perm[u] # perm[v]) /\ (\A u \in Idx : arr[u] = Arr0[perm[u]])
      BY <1>0 DEF PermInv
    <2>3. /\ Swap(perm, P0, 0) \in [Idx -> Idx]
          /\ \A u \in Idx : \A v \in Idx : u # v => Swap(perm, P0, 0)[u] # Swap(perm, P0, 0)[v]
          /\ \A u \in Idx : Swap(arr, P0, 0)[u] = Arr0[Swap(perm, P0, 0)[u]]
      <3> HIDE DEF Idx
      <3> QED BY <1>0, <2>1, <2>2 DEF Swap
    <2> QED BY <1>0, <2>1, <2>3 DEF PermInv
  <1> QED BY <1>a, <1>b

LEMMA CmpPerm == Inv /\ Cmp => PermInv'
  <1> SUFFICES ASSUME Inv, Cmp PROVE PermInv'
    OBVIOUS
  <1>0. arr \in [Idx -> Int] /\ Arr0 \in [Idx -> Int] /\ Arr0' = Arr0 /\ Len0' = Len0 /\ PermInv /\ pc = "Cmp"
        /\ i \in Int /\ j \in Int /\ 1 <= i /\ i <= Len0 /\ 0 <= j /\ j <= Len0 - 1 /\ Len0 \in Nat
    BY DEF Inv, Core, TypeOK, CursorInv, Cmp
  <1>a. CASE i >= j
    <2>1. arr' = Swap(arr, 0, i - 1) /\ perm' = Swap(perm, 0, i - 1) /\ 0 \in Idx /\ i - 1 \in Idx
      BY <1>0, <1>a DEF Cmp
    <2>2. /\ perm \in [Idx -> Idx] /\ (\A u \in Idx : \A v \in Idx : u # v => perm[u] # perm[v]) /\ (\A u \in Idx : arr[u] = Arr0[perm[u]])
      BY <1>0 DEF PermInv
    <2>3. /\ Swap(perm, 0, i - 1) \in [Idx -> Idx]
          /\ \A u \in Idx : \A v \in Idx : u # v => Swap(perm, 0, i - 1)[u] # Swap(perm, 0, i - 1)[v]
          /\ \A u \in Idx : Swap(arr, 0, i - 1)[u] = Arr0[Swap(perm, 0, i - 1)[u]]
      <3> HIDE DEF Idx
      <3> QED BY <1>0, <2>1, <2>2 DEF Swap
    <2> QED BY <1>0, <2>1, <2>3 DEF PermInv
  <1>b. CASE ~(i >= j)
    <2>1. arr' = Swap(arr, i, j) /\ perm' = Swap(perm, i, j) /\ i \in Idx /\ j \in Idx
      BY <1>0, <1>b DEF Cmp
    <2>2. /\ perm \in [Idx -> Idx] /\ (\A u \in Idx : \A v \in Idx : u # v => perm[u] # perm[v]) /\ (\A u \in Idx : arr[u] = Arr0[perm[u]])
      BY <1>0 DEF PermInv
    <2>3. /\ Swap(perm, i, j) \in [Idx -> Idx]
          /\ \A u \in Idx : \A v \in Idx : u # v => Swap(perm, i, j)[u] # Swap(perm, i, j)[v]
          /\ \A u \in Idx : Swap(arr, i, j)[u] = Arr0[Swap(perm, i, j)[u]]
      <3> HIDE DEF Idx
      <3> QED BY <1>0, <2>1, <2>2 DEF Swap
    <2> QED BY <1>0, <2>1, <2>3 DEF PermInv
  <1> QED BY <1>a, <1>b

LEMMA KeepPerm == ASSUME PermInv, UNCHANGED <<arr, perm, Arr0, Len0>> PROVE PermInv'
  BY DEF PermInv

THEOREM Safety == Spec => []Inv
  <1>1. Inv /\ [Next]_vars => Inv'
    <2> SUFFICES ASSUME Inv, [Next]_vars PROVE Inv'
      OBVIOUS
    <2>1. Core /\ PermInv
      BY DEF Inv
    <2>a. CASE Start
      BY <2>1, <2>a, StartCore, StartPerm DEF Inv
    <2>b. CASE StepI
      BY <2>1, <2>b, StepICore, KeepPerm DEF Inv, StepI
    <2>c. CASE StepJ
      BY <2>1, <2>c, StepJCore, KeepPerm DEF Inv, StepJ
    <2>d. CASE Cmp
      BY <2>1, <2>d, CmpCore, CmpPerm DEF Inv
    <2>e. CASE UNCHANGED vars
      BY <2>1, <2>e, StutterCore, KeepPerm DEF Inv, vars
    <2> QED BY <2>a, <2>b, <2>c, <2>d, <2>e DEF Next
  <1>2. Init => Inv
    BY InitCore, InitPerm DEF Inv
  <1>. QED  BY <1>1, <1>2, PTL DEF Spec

(* C15 / C16 in words *)
THEOREM NeverPanics == Spec => [](P0 < Len0 => pc # "panic")
  <1>1. Inv => (P0 < Len0 => pc # "panic")  BY DEF Inv, Core, NoPanicInRange
  <1>. QED  BY Safety, <1>1, PTL
=============================================================================
