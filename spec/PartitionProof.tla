--------------------------- MODULE PartitionProof ---------------------------
(***************************************************************************)
(* TLAPS proofs about PartitionAlg: the invariant Inv (cursor safety, loop *)
(* invariant, never "panic", arrangement clauses at return) is inductive   *)
(* for arrays of every length, every integer contents and every in-range   *)
(* pivot position.      tlapm PartitionProof.tla   (about 10 s)            *)
(***************************************************************************)
EXTENDS PartitionAlg, TLAPS

LEMMA InitInv == Init => Inv
  BY DEF Assumptions, params, Init, Inv, TypeOK, InRange, NoPanicInRange, OorInv, CursorInv, LoopInv, Post, StartOK, Running, Idx

LEMMA StartInv == Inv /\ Start => Inv'
  BY DEF Assumptions, params, Inv, Start, TypeOK, InRange, NoPanicInRange, OorInv, CursorInv, LoopInv, Post, StartOK, Running, Idx, Swap

LEMMA StepIInv == Inv /\ StepI => Inv'
  BY DEF Assumptions, params, Inv, StepI, TypeOK, InRange, NoPanicInRange, OorInv, CursorInv, LoopInv, Post, StartOK, Running, Idx

LEMMA StepJInv == Inv /\ StepJ => Inv'
  BY DEF Assumptions, params, Inv, StepJ, TypeOK, InRange, NoPanicInRange, OorInv, CursorInv, LoopInv, Post, StartOK, Running, Idx

LEMMA CmpInv == Inv /\ Cmp => Inv'
  BY DEF Assumptions, params, Inv, Cmp, TypeOK, InRange, NoPanicInRange, OorInv, CursorInv, LoopInv, Post, StartOK, Running, Idx, Swap

LEMMA StutterInv == Inv /\ UNCHANGED vars => Inv'
  BY DEF Assumptions, params, Inv, vars, TypeOK, InRange, NoPanicInRange, OorInv, CursorInv, LoopInv, Post, StartOK, Running, Idx

THEOREM Safety == Spec => []Inv
  <1>1. Inv /\ [Next]_vars => Inv'
    BY StartInv, StepIInv, StepJInv, CmpInv, StutterInv DEF Next
  <1>. QED  BY InitInv, <1>1, PTL DEF Spec

(* C15 in words: no panic, and the arrangement at return *)
THEOREM NeverPanics == Spec => [](P0 < Len0 => pc # "panic")
  <1>1. Inv => (P0 < Len0 => pc # "panic")  BY DEF Inv, NoPanicInRange, InRange
  <1>. QED  BY Safety, <1>1, PTL
=============================================================================
