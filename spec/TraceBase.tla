----------------------------- MODULE TraceBase -----------------------------
(***************************************************************************)
(* Common skeleton of the trace validators.  A trace is an ndjson file of  *)
(* observations recorded from the real code (env TRACE).  The validator    *)
(* consumes one line per step; a line the specification rejects does not   *)
(* block the rest: its number goes into TLC register 1 (verdict level) or  *)
(* register 2 (drift: accepted by the abstract predicate, different from   *)
(* the implementation-level transcription).  The post-condition prints the *)
(* registers; the orchestrator turns register 1 into VIOLATION lines.      *)
(* Needs -workers 1.                                                       *)
(***************************************************************************)
EXTENDS Naturals, Sequences, TLC, Json, IOUtils

Rec  == ndJsonDeserialize(IOEnv.TRACE)
PROP == IOEnv.PROP

ASSUME TLCSet(1, {}) /\ TLCSet(2, {}) /\ TLCSet(3, {})

Has(e, f) == f \in DOMAIN e

MarkBad(l)   == TLCSet(1, TLCGet(1) \cup {l})
MarkDrift(l) == TLCSet(2, TLCGet(2) \cup {l})
(* rejected, but the specification recognises the observation as an instance of a recorded known finding *)
MarkKnown(l) == TLCSet(1, TLCGet(1) \cup {l}) /\ TLCSet(3, TLCGet(3) \cup {l})

Report ==
    /\ PrintT(<<"CONSUMED", TLCGet("stats").diameter - 1, "OF", Len(Rec)>>)
    /\ PrintT(<<"BAD", TLCGet(1)>>)
    /\ PrintT(<<"DRIFT", TLCGet(2)>>)
    /\ PrintT(<<"KNOWN", TLCGet(3)>>)
=============================================================================
