------------------------------ MODULE LookupAlg -----------------------------
(***************************************************************************)
(* The match of `Edges::indices_of' (bins.rs:219-228) on the outcome of    *)
(* the binary search, 0-based positions as in the code.  Proved correct    *)
(* for every length in LookupProof.tla; instanced by Lookup.tla.           *)
(***************************************************************************)
EXTENDS Integers

NONE == -1
(* the match of bins.rs:219-228, 0-based positions as in the code *)
Match(n, ok, i) ==
    IF ok THEN (IF i = n - 1 THEN NONE ELSE i)
    ELSE (IF i = 0 THEN NONE ELSE IF i = n THEN NONE ELSE i - 1)
=============================================================================
