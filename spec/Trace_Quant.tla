---------------------------- MODULE Trace_Quant ----------------------------
(***************************************************************************)
(* Validates observations of the quantile routines.  One event = one call  *)
(* on an n-D view: lanes before the call, exact position info per q,       *)
(* result (flattened, logical order) and shape, parent memory before and   *)
(* after.  PROP selects the clauses: C01 values + shape law, C03 frame,    *)
(* C18 bulk = single item by item; event "qlaws": C19 order laws.          *)
(***************************************************************************)
EXTENDS QuantOps, Layout, ViewOps, TraceBase

VARIABLE l

IsFloat(e) == e.ty = "n64"
Bulk(e)    == e.api \in {"axis_bulk", "1d_bulk"}

ExpectedShape(e) ==
    LET ax == e.axis + 1 IN
    IF e.api = "1d_single" THEN <<>>
    ELSE IF Bulk(e) THEN [e.g.shape EXCEPT ![ax] = Len(e.qs)]
    ELSE RemoveAt(e.g.shape, ax)

(* position in the flattened result of lane t (0-based) and request j (0-based) *)
ResPos(e, t, j) ==
    LET ax == e.axis + 1
        li == Unravel(RemoveAt(e.g.shape, ax), t)
    IN IF e.api = "1d_single" THEN 0
       ELSE IF Bulk(e) THEN Ravel(ExpectedShape(e), InsertAt(li, ax, j))
       ELSE Ravel(ExpectedShape(e), li)

(* C01 *)
ValuesOK(e) ==
    /\ e.out = "ok"
    /\ e.rshape = ExpectedShape(e)                                        \* shape law
    /\ Len(e.res) = Prod(ExpectedShape(e))
    /\ \A t \in 0..(Len(e.lanes) - 1) : \A j \in 0..(Len(e.qs) - 1) :
          QuantileValueOK(e.lanes[t + 1], e.qs[j + 1], e.strat, e.res[ResPos(e, t, j) + 1], IsFloat(e))
    \* identical on every call: the same request on the rearranged buffer, under other pivots, gives the same answer
    /\ e.out2 = "ok" /\ e.res2 = e.res

(* C03 *)
LanesFrameOK(e) ==
    LET g == e.g  ax == e.axis + 1 IN
    /\ Len(e.mem0) = Len(e.mem1)
    \* the receiver itself still denotes the same elements in the same order (shape, strides, first element), also after a rejected request
    /\ Has(e, "g1") => e.g1 = e.g
    /\ LET A == AddrSet(g) IN \A k \in 0..(Len(e.mem0) - 1) : k \notin A => Cell(e.mem1, k) = Cell(e.mem0, k)
    /\ \A t \in 0..(NumLanes(g, ax) - 1) :
          LET v == LaneOf(g, ax, t)
              before == [x \in 1..v.len |-> Cell(e.mem0, v.ptr + (x - 1) * v.stride)]
              after  == [x \in 1..v.len |-> Cell(e.mem1, v.ptr + (x - 1) * v.stride)]
          IN SameBag(before, after)

(* C18: slice j of the bulk result = the single call for qs[j] *)
PairOK(e) ==
    /\ Has(e, "singles") /\ Len(e.singles) = Len(e.qs)
    /\ IF e.out = "ok"
       THEN \A j \in 0..(Len(e.qs) - 1) :
              /\ e.singles[j + 1].out = "ok"
              /\ Len(e.singles[j + 1].res) = Len(e.lanes)
              /\ \A t \in 0..(Len(e.lanes) - 1) : e.res[ResPos(e, t, j) + 1] = e.singles[j + 1].res[t + 1]
       ELSE \* the bulk call fails exactly as one of its items does
            \E j \in 1..Len(e.qs) : e.singles[j].out = e.out

QuantileEvOK(e) ==
    CASE PROP = "C03" -> LanesFrameOK(e)
      [] PROP = "C18" -> PairOK(e)
      [] OTHER        -> ValuesOK(e) /\ LanesFrameOK(e)

---------------------------------------------------------------------------
(* C19: order laws, in doubled-rank space (2r = the r-th smallest distinct *)
(* value of the lane, odd = strictly between two of them).                 *)
Lane2Min(e) == CHOOSE v \in RangeOf(e.lane) : \A w \in RangeOf(e.lane) : v <= w
Lane2Max(e) == CHOOSE v \in RangeOf(e.lane) : \A w \in RangeOf(e.lane) : v >= w
Sure(qi) == ~qi.up /\ ~qi.dn /\ ~qi.half        \* position not within rounding error of a breakpoint

(* Beyond 2^53 Linear's documented computation goes through f64: only its exact points are lawful there. *)
(* lanes of a signed 8-bit type whose neighbours are more than T::MAX apart: Midpoint is the known finding F6 there and is *)
(* left out; Linear is lawful for the fractions used (fraction * gap <= T::MAX)                                            *)
LawStrats(e) == IF Has(e, "nomid") /\ e.nomid THEN STRATS \ {"midpoint"} ELSE STRATS
OrdStrats(e) == IF e.big THEN LawStrats(e) \ {"linear"} ELSE LawStrats(e)

LawsOn(e, r) ==
    LET nq == Len(e.qs) IN
    /\ \A s \in LawStrats(e) : Len(r[s]) = nq
    \* end points (integral positions are exact for every strategy)
    /\ \A s \in LawStrats(e) : \A j \in 1..nq :
          /\ (e.qs[j].int /\ e.qs[j].k = 0) => r[s][j] = Lane2Min(e)
          /\ (e.qs[j].int /\ e.qs[j].k = e.n - 1) => r[s][j] = Lane2Max(e)
    \* bounds
    /\ \A s \in OrdStrats(e) : \A j \in 1..nq : Lane2Min(e) <= r[s][j] /\ r[s][j] <= Lane2Max(e)
    \* monotone in q (qs ascending)
    /\ e.qord => \A s \in OrdStrats(e) : \A j \in 1..(nq - 1) :
          (Sure(e.qs[j]) /\ Sure(e.qs[j + 1])) => r[s][j] <= r[s][j + 1]
    \* Lower <= {Nearest, Midpoint, Linear} <= Higher
    /\ \A j \in 1..nq : Sure(e.qs[j]) =>
          \A s \in OrdStrats(e) \ {"lower", "higher"} : r["lower"][j] <= r[s][j] /\ r[s][j] <= r["higher"][j]
    \* all five coincide when (N-1)q is integral
    /\ \A j \in 1..nq : (e.qs[j].int) => \A s \in LawStrats(e) : r[s][j] = r["lower"][j]

NoFailure(r) == Len(r.failed) = 0
NoFailureIn(e, r) == \A x \in DOMAIN r.failed : r.failed[x] \notin LawStrats(e)

QLawsEvOK(e) ==
    /\ NoFailureIn(e, e.res) /\ NoFailureIn(e, e.perm) /\ NoFailureIn(e, e.rel)
    /\ LawsOn(e, e.res)
    /\ LawsOn(e, e.perm)
    \* invariance under permutation of the lane (all strategies)
    /\ \A s \in LawStrats(e) : e.perm[s] = e.res[s]
    \* ... in particular under the permutation left behind by earlier calls on the same object (any strategy, any q),
    \* and for the NaN-skipping form on an object that holds the same values plus NaNs
    /\ NoFailureIn(e, e.seq) /\ \A s \in LawStrats(e) : e.seq[s] = e.res[s]
    /\ NoFailureIn(e, e.skip) /\ \A s \in LawStrats(e) : e.skip[s] = e.res[s]
    \* ... and on an Option<N64> object holding the same values plus missing ones (arithmetic on the NotNone wrapper)
    /\ Has(e, "oskip") => (NoFailureIn(e, e.oskip) /\ \A s \in LawStrats(e) : e.oskip[s] = e.res[s])
    \* selecting strategies commute with a strictly increasing relabelling (ranks are unchanged)
    /\ \A s \in {"lower", "higher", "nearest"} : e.rel[s] = e.res[s]

(* C19 on the lanes of an n-D array: q = 0 / q = 1 give each lane's minimum / maximum under every strategy, lane by lane *)
SeqMin(s) == CHOOSE v \in RangeOf(s) : \A w \in RangeOf(s) : v <= w
SeqMax(s) == CHOOSE v \in RangeOf(s) : \A w \in RangeOf(s) : v >= w
NdLawsEvOK(e) ==
    /\ Len(e.failed) = 0 /\ e.shape_ok
    /\ \A s \in STRATS :
          /\ Len(e.res0[s]) = Len(e.lanes) /\ Len(e.res1[s]) = Len(e.lanes)
          /\ \A t \in DOMAIN e.lanes : e.res0[s][t] = SeqMin(e.lanes[t]) /\ e.res1[s][t] = SeqMax(e.lanes[t])
    \* the NaN-skipping form with some elements replaced by NaN: minimum / maximum of what each lane keeps (-1: nothing kept)
    /\ Has(e, "klanes") =>
          /\ Len(e.sfailed) = 0
          /\ \A s \in STRATS :
                /\ Len(e.sres0[s]) = Len(e.klanes) /\ Len(e.sres1[s]) = Len(e.klanes)
                /\ \A t \in DOMAIN e.klanes :
                      IF Len(e.klanes[t]) = 0 THEN e.sres0[s][t] = -1 /\ e.sres1[s][t] = -1
                      ELSE e.sres0[s][t] = SeqMin(e.klanes[t]) /\ e.sres1[s][t] = SeqMax(e.klanes[t])

EventOK(e) ==
    CASE e.ev = "quantile" -> QuantileEvOK(e)
      [] e.ev = "ndlaws"   -> NdLawsEvOK(e)
      [] e.ev = "qlaws"    -> QLawsEvOK(e)
      [] OTHER -> FALSE

(* drift: the observed geometry is what the Layout model predicts; integer results equal the transcription *)
Drift(e) ==
    CASE e.ev = "quantile" ->
            \/ (Size(e.g) > 0 /\ LayGeom(e.lay) # e.g)
            \/ (~IsFloat(e) /\ e.out = "ok" /\
                \E t \in 0..(Len(e.lanes) - 1) : \E j \in 0..(Len(e.qs) - 1) :
                    LET qi == e.qs[j + 1]  lane == e.lanes[t + 1] IN
                    Sure(qi) /\ Abs(qi.u) < 1000 /\ (e.strat = "linear" => (qi.u = 0 /\ qi.b \in {1, 2, 4, 8, 16})) /\
                    e.res[ResPos(e, t, j) + 1] #
                        InterpolateInt(e.strat, S(lane, LowerIdx(qi)), S(lane, HigherIdx(qi)), qi, Len(lane)))
      [] OTHER -> FALSE

(* Known finding F6 (DESIGN.md section 6), stated on the observation itself: a signed 8- or 16-bit lane on which the *)
(* documented computation overflows although the result is representable:                                          *)
(*   Midpoint:  higher - lower > T::MAX for the two order statistics of some request;                              *)
(*   Linear:    fraction * (higher - lower) > T::MAX, so T::from_f64 of the offset fails.                           *)
TMaxOf(ty) == IF ty = "i8" THEN 127 ELSE 32767
KnownF6(e) ==
    /\ e.ev = "quantile" /\ e.ty \in {"i8", "i16"} /\ e.strat \in {"midpoint", "linear"}
    /\ \E t \in DOMAIN e.lanes : \E j \in DOMAIN e.qs :
          LET lane == e.lanes[t]  qi == e.qs[j]
              lo == S(lane, LowerIdx(qi))  hi == S(lane, HigherIdx(qi))
              pn == (Len(lane) - 1) * qi.a
              \* fraction of the position as a multiple of 1/b; a q nudged just below an integral position has fraction ~ 1
              fr == IF pn % qi.b = 0 /\ ~qi.int /\ qi.k < pn \div qi.b THEN qi.b ELSE pn % qi.b
          IN IF e.strat = "midpoint" THEN hi - lo > TMaxOf(e.ty)
             ELSE fr * (hi - lo) > (TMaxOf(e.ty) - 1) * qi.b

Init == l = 1
Next ==
    /\ l <= Len(Rec)
    /\ LET e == Rec[l] IN
         IF EventOK(e)
         THEN (IF Drift(e) THEN MarkDrift(l) ELSE TRUE)
         ELSE (IF KnownF6(e) THEN MarkKnown(l) ELSE MarkBad(l))
    /\ l' = l + 1
Spec == Init /\ [][Next]_l
=============================================================================
