----------------------------- MODULE Partition -----------------------------
(***************************************************************************)
(* Fine-grained state machine of `partition_mut' (src/sort.rs:146-182):    *)
(* one action per loop body, cursors i and j as in the code.               *)
(*                                                                         *)
(* Checked: cursor safety in every state, every mutation is a swap (bag    *)
(* preserved in every state), PartitionOK at return, no panic for an       *)
(* in-range pivot position, a panic for every out-of-range one (C15, C16,  *)
(* C03), termination, and equality with the functional twin PartitionFn    *)
(* that the Select and Bulk machines use.                                  *)
(***************************************************************************)
EXTENDS SortOps, Json

CONSTANTS N,        \* maximal array length
          NMin,     \* minimal array length
          OutOfRange, \* TRUE: also explore pivot positions n, n+1 and BIG
          Emit        \* TRUE: print one REPLAY line per complete behaviour

VARIABLES init,  \* the array at call time
          p0,    \* requested pivot position
          arr,   \* the array being permuted
          pv,    \* pivot value
          i, j,  \* cursors (0-based, as in the code)
          pc,    \* "Start" | "ScanI" | "ScanJ" | "Cmp" | "done" | "panic"
          ret,
          perm   \* ghost (history): perm[x] = original 0-based position of the element now at 0-based position x

vars == <<init, p0, arr, pv, i, j, pc, ret, perm>>
SwapF(f, x, y) == [f EXCEPT ![x] = f[y], ![y] = f[x]]

Positions(n) == IF OutOfRange THEN 0..(n + 1) \cup {BIG} ELSE 0..(n - 1)

Init ==
    /\ \E n \in NMin..N : init \in Patterns(n)
    /\ p0 \in Positions(Len(init))
    /\ arr = init /\ pv = 0 /\ i = 0 /\ j = 0 /\ pc = "Start" /\ ret = 0
    /\ perm = [x \in 0..(Len(init) - 1) |-> x]

(* sort.rs:151-155 *)
Start ==
    /\ pc = "Start"
    /\ IF p0 >= Len(arr)
       THEN pc' = "panic" /\ UNCHANGED <<arr, pv, i, j, perm>>        \* index panic of `self[pivot_index]'
       ELSE /\ pv' = At(arr, p0)
            /\ arr' = Swap(arr, p0, 0) /\ perm' = SwapF(perm, p0, 0)
            /\ i' = 1
            /\ j' = Len(arr) - 1
            /\ pc' = "ScanI"
    /\ UNCHANGED <<init, p0, ret>>

(* sort.rs:157-165 *)
StepI ==
    /\ pc = "ScanI"
    /\ IF i > j THEN pc' = "ScanJ" /\ i' = i
       ELSE IF At(arr, i) >= pv THEN pc' = "ScanJ" /\ i' = i
       ELSE i' = i + 1 /\ pc' = "ScanI"
    /\ UNCHANGED <<init, p0, arr, pv, j, ret, perm>>

(* sort.rs:166-171 *)
StepJ ==
    /\ pc = "ScanJ"
    /\ IF pv <= At(arr, j)
       THEN IF JStop(j) THEN pc' = "Cmp" /\ j' = j
            ELSE IF j = 0 THEN pc' = "panic" /\ j' = j           \* WrapUsize / overflow panic
            ELSE j' = j - 1 /\ pc' = "ScanJ"
       ELSE pc' = "Cmp" /\ j' = j
    /\ UNCHANGED <<init, p0, arr, pv, i, ret, perm>>

(* sort.rs:172-181 *)
Cmp ==
    /\ pc = "Cmp"
    /\ IF i >= j
       THEN /\ arr' = Swap(arr, 0, i - 1) /\ perm' = SwapF(perm, 0, i - 1)
            /\ ret' = i - 1
            /\ pc' = "done"
            /\ UNCHANGED <<i, j>>
       ELSE /\ arr' = Swap(arr, i, j) /\ perm' = SwapF(perm, i, j)
            /\ i' = i + 1
            /\ j' = j - 1
            /\ pc' = "ScanI"
            /\ UNCHANGED ret
    /\ UNCHANGED <<init, p0, pv>>

Next == Start \/ StepI \/ StepJ \/ Cmp
Spec == Init /\ [][Next]_vars /\ WF_vars(Next)

---------------------------------------------------------------------------
Running == pc \in {"ScanI", "ScanJ", "Cmp"}

TypeOK ==
    /\ pc \in {"Start", "ScanI", "ScanJ", "Cmp", "done", "panic"}
    /\ Len(arr) = Len(init)

(* Every mutation is a swap inside the array: the multiset never changes (C03). *)
BagInv == SameBag(arr, init)

(* The cursors never leave the array while an element is read through them. *)
CursorInv ==
    Running =>
        /\ 1 <= i /\ i <= Len(arr)
        /\ 0 <= j /\ j <= Len(arr) - 1
        /\ (pc = "ScanI" /\ i <= j) => i <= Len(arr) - 1

(* Loop invariant of Hoare's scheme as used here. *)
LoopInv ==
    Running =>
        /\ At(arr, 0) = pv
        /\ \A x \in 1..(i - 1) : At(arr, x) < pv
        /\ \A x \in (j + 1)..(Len(arr) - 1) : At(arr, x) >= pv

(* C15 at return. *)
DoneOK == pc = "done" => PartitionOK(init, p0, ret, arr)

(* C15 / C16: panics exactly for an out-of-range pivot position. *)
PanicIffOutOfRange ==
    /\ pc = "panic" => p0 >= Len(init)
    /\ pc = "done"  => p0 < Len(init)
    /\ pc \in {"ScanI", "ScanJ", "Cmp"} => p0 < Len(init)

(* The functional twin used by Select and Bulk computes the same thing. *)
TwinOK ==
    /\ pc = "done"  => PartitionFn(init, p0) = <<arr, ret>>
    /\ pc = "panic" => PartitionFn(init, p0)[2] = PANIC

Terminates == <>(pc \in {"done", "panic"})

(* Refinement of the module whose invariants are PROVED for every length by TLAPS (PartitionAlg.tla, proofs in PartitionProof.tla): every      *)
(* behaviour of this machine - pivot position in range or not - is a behaviour of that one, reading the 1-based  *)
(* sequences as 0-based functions.                                                                               *)
ZeroBased(s) == [x \in 0..(Len(s) - 1) |-> s[x + 1]]
PP == INSTANCE PartitionAlg WITH Len0 <- Len(init), Arr0 <- ZeroBased(init), P0 <- p0, arr <- ZeroBased(arr)
RefinesProof == PP!Spec

EmitInv ==
    (Emit /\ pc \in {"done", "panic"}) =>
        PrintT(<<"REPLAY", ToJson([ev |-> "partition", a |-> init, p |-> p0])>>)
=============================================================================
