import json, sys, glob, os
import jsonschema
R = os.path.dirname(os.path.dirname(os.path.abspath(__file__)))
jsonschema.validate(json.load(open(R + '/MANIFEST.json')), json.load(open('/root/.vp/MANIFEST.schema.json')))
s = json.load(open('/root/.vp/EVIDENCE.schema.json'))
for f in sorted(glob.glob(R + '/evidence/*.json')):
    jsonschema.validate(json.load(open(f)), s)
    print('ok', os.path.basename(f))
print('manifest ok')
