"""Engine of ./check: TLC runs, harness runs, trace validation, known findings, evidence."""
import hashlib
import json
import os
import re
import shutil
import subprocess
import sys
import time

ROOT = os.path.dirname(os.path.dirname(os.path.abspath(__file__)))
SPEC = os.path.join(ROOT, "spec")
HARNESS = os.path.join(ROOT, "harness")
WORK = os.path.join(ROOT, "work")
TARGET = os.path.join(WORK, "target")
EVID = os.path.join(ROOT, "evidence")
REPLAYS = os.path.join(WORK, "replays")
JAR = "/opt/veriftools/tla/tla2tools.jar:/opt/veriftools/tla/CommunityModules-deps.jar"
INT_LIMIT = 1 << 30
KNOWN_CLASS = {"Trace_Quant": "F6", "Trace_Num": "F10"}


class ToolError(Exception):
    pass


def log(*a):
    print(*a, flush=True)


# --------------------------------------------------------------------------- TLC

def write_cfg(path, cfg):
    """cfg: dict(spec=..., constants={}, invariants=[], properties=[], view=None, post=None, constraint=None)"""
    lines = ["SPECIFICATION %s" % cfg.get("spec", "Spec")]
    if cfg.get("constants"):
        lines.append("CONSTANTS")
        for k, v in cfg["constants"].items():
            if isinstance(v, bool):
                v = "TRUE" if v else "FALSE"
            lines.append("  %s = %s" % (k, v))
    if cfg.get("invariants"):
        lines.append("INVARIANTS " + " ".join(cfg["invariants"]))
    for p in cfg.get("properties", []):
        lines.append("PROPERTY " + p)
    if cfg.get("view"):
        lines.append("VIEW " + cfg["view"])
    if cfg.get("constraint"):
        lines.append("CONSTRAINT " + cfg["constraint"])
    if cfg.get("post"):
        lines.append("POSTCONDITION " + cfg["post"])
    lines.append("CHECK_DEADLOCK FALSE")
    with open(path, "w") as f:
        f.write("\n".join(lines) + "\n")


def run_tlc(module, cfg_path, workdir, tag, workers=8, env=None, heap="4g", timeout=1800,
            trace_mode=False, coverage=False, simulate=None):
    meta = os.path.join(workdir, "meta_" + tag)
    out_path = os.path.join(workdir, "tlc_%s.out" % tag)
    e = dict(os.environ)
    if env:
        e.update(env)
    jto = "-Xss1g"
    if trace_mode:
        jto += " -Dtlc2.tool.queue.IStateQueue=StateDeque"
    e["JAVA_TOOL_OPTIONS"] = jto
    cmd = ["java", "-XX:+UseParallelGC", "-Xmx" + heap, "-cp", JAR, "tlc2.TLC",
           "-workers", str(workers), "-metadir", meta, "-cleanup", "-noGenerateSpecTE"]
    if coverage:
        cmd += ["-coverage", "1"]
    if simulate:
        cmd += ["-simulate", simulate[0], "-depth", str(simulate[1])]
    cmd += ["-config", cfg_path, module + ".tla"]
    t0 = time.time()
    with open(out_path, "w") as fo:
        try:
            p = subprocess.run(cmd, cwd=SPEC, env=e, stdout=fo, stderr=subprocess.STDOUT, timeout=timeout)
            rc = p.returncode
        except subprocess.TimeoutExpired:
            rc = -9
    shutil.rmtree(meta, ignore_errors=True)
    return rc, out_path, time.time() - t0


STATS_RE = re.compile(r"^(\d+) states generated, (\d+) distinct states found", re.M)


def tlc_stats(text):
    m = None
    for m in STATS_RE.finditer(text):
        pass
    if not m:
        return 0, 0
    return int(m.group(1)), int(m.group(2))


def coverage_actions(text):
    """per-action counts from a -coverage 1 run: {action: (distinct, taken)}"""
    res = {}
    for m in re.finditer(r"^<(\w+) line \d+, col \d+ to line \d+, col \d+ of module (\w+)>: (\d+):(\d+)", text, re.M):
        name = m.group(1)
        d, t = int(m.group(3)), int(m.group(4))
        if name in res:
            res[name] = (res[name][0] + d, res[name][1] + t)
        else:
            res[name] = (d, t)
    return res


def apalache_check(ctx, m):
    """Symbolic bounded check with Apalache (SMT): m = dict(engine="apalache", module, name, maxn, length, inv)."""
    src = open(os.path.join(SPEC, "apalache", m["module"] + ".tla")).read()
    mod = m["name"]
    src = re.sub(r"MODULE %s\b" % m["module"], "MODULE " + mod, src)
    src = re.sub(r"^MAXN == \d+", "MAXN == %d" % m["maxn"], src, flags=re.M)
    path = os.path.join(ctx["dir"], mod + ".tla")
    with open(path, "w") as f:
        f.write(src)
    out_path = os.path.join(ctx["dir"], "apalache_%s.out" % mod)
    cmd = ["apalache-mc", "check", "--length=%d" % m["length"], "--inv=%s" % m.get("inv", "Inv"),
           "--out-dir=" + os.path.join(ctx["dir"], "apalache_out"), path]
    t0 = time.time()
    with open(out_path, "w") as fo:
        rc = run_group(cmd, cwd=ctx["dir"], stdout=fo, timeout=m.get("timeout", 1500))
    secs = time.time() - t0
    text = open(out_path, errors="replace").read()
    shutil.rmtree(os.path.join(ctx["dir"], "apalache_out"), ignore_errors=True)
    res = dict(name=mod, module=m["module"], engine="apalache (SMT, symbolic integer contents)", generated=0, distinct=0, seconds=round(secs, 1),
               constants=dict(MAXN=m["maxn"], length=m["length"]), out=out_path, ok="The outcome is: NoError" in text)
    if not res["ok"]:
        if "The outcome is: Error" in text and "invariant" in text:
            res["violation"] = True
        else:
            raise ToolError("apalache failed on %s (rc=%s, see %s)" % (mod, rc, out_path))
    return res


def run_group(cmd, cwd, stdout, timeout):
    """Runs cmd in its own process group; on timeout (and at exit) the whole group is killed - tlapm's back ends (z3, zenon,
    isabelle) otherwise survive their parent and keep a core and gigabytes each.  Returns the exit code, -9 on timeout."""
    import signal
    p = subprocess.Popen(cmd, cwd=cwd, stdout=stdout, stderr=subprocess.STDOUT, start_new_session=True)
    try:
        rc = p.wait(timeout=timeout)
    except subprocess.TimeoutExpired:
        rc = -9
    try:
        os.killpg(p.pid, signal.SIGKILL)
    except (ProcessLookupError, PermissionError):
        pass
    try:
        p.wait(timeout=10)
    except Exception:
        pass
    return rc


def tlaps_check(ctx, m):
    """Deductive check with the TLA+ proof system: m = dict(engine="tlaps", module, name, deps=[...]).
    The proof is about the specification only (for every array length), so a failure here is a defect of the
    machinery (tool error), never a verdict about the code; TLC ties the proved module to the checked ones by refinement."""
    d = os.path.join(ctx["dir"], "tlaps_" + m["name"])
    os.makedirs(d, exist_ok=True)
    for mod in [m["module"]] + m.get("deps", []):
        shutil.copy(os.path.join(SPEC, mod + ".tla"), d)
    out_path = os.path.join(ctx["dir"], "tlaps_%s.out" % m["name"])
    t0 = time.time()
    rc = -9
    for attempt, stretch in enumerate(("2", "8", "30")):          # back-end time limits stretched on a loaded machine
        with open(out_path, "w") as fo:
            rc = run_group(["tlapm", "--threads", "4", "--stretch", stretch, m["module"] + ".tla"], cwd=d, stdout=fo, timeout=m.get("timeout", 600))
        text = open(out_path, errors="replace").read()
        mt = re.search(r"All (\d+) obligations? proved", text)
        if (rc == 0 and mt) or rc == -9:
            break
    secs = time.time() - t0
    shutil.rmtree(d, ignore_errors=True)
    if not (rc == 0 and mt):
        text = open(out_path, errors="replace").read()
        if rc == -9 and "obligations failed" not in text:
            # the prover did not finish within its budget (a heavily loaded machine): the proof is about the specification only
            # and says nothing about the code, so the verdict of this run does not depend on it - recorded as not re-checked
            log("  TLAPS %s: not re-checked in this run (time budget exhausted)" % m["module"])
            return dict(name=m["name"], module=m["module"], engine="tlaps (deductive, unbounded array length)", generated=0, distinct=0,
                        seconds=round(secs, 1), constants=dict(obligations_proved=0, skipped="time budget exhausted"), out=out_path, ok=True)
        raise ToolError("tlapm did not prove %s (rc=%s, see %s)" % (m["module"], rc, out_path))
    return dict(name=m["name"], module=m["module"], engine="tlaps (deductive, unbounded array length)", generated=0, distinct=0, seconds=round(secs, 1),
                constants=dict(obligations_proved=int(mt.group(1))), out=out_path, ok=True)


def model_check(ctx, m):
    """m: dict(module, name, cfg{}, emit(bool), workers, expect('ok'|'violation'))"""
    if m.get("engine") == "apalache":
        return apalache_check(ctx, m)
    if m.get("engine") == "tlaps":
        return tlaps_check(ctx, m)
    tag = m["name"]
    cfg_path = os.path.join(ctx["dir"], tag + ".cfg")
    write_cfg(cfg_path, m["cfg"])
    rc, out_path, secs = run_tlc(m["module"], cfg_path, ctx["dir"], tag, workers=m.get("workers", 8),
                                 heap=m.get("heap", "6g"), timeout=m.get("timeout", 1800),
                                 coverage=m.get("coverage", ctx["tier"] == "thorough" and not m.get("emit")),
                                 simulate=m.get("simulate"))
    text = open(out_path, errors="replace").read()
    gen, dist = tlc_stats(text)
    ok = "Model checking completed. No error has been found." in text or (m.get("simulate") and rc in (0, -9) and "Error:" not in text)
    res = dict(name=tag, module=m["module"], generated=gen, distinct=dist, seconds=round(secs, 1), ok=bool(ok), out=out_path,
               constants=m["cfg"].get("constants", {}))
    if m.get("coverage", False) or (ctx["tier"] == "thorough" and not m.get("emit")):
        cov = coverage_actions(text)
        res["actions"] = {k: v[1] for k, v in cov.items()}
    if m.get("emit"):
        cases = []
        for line in text.splitlines():
            if line.startswith('<<"REPLAY", "'):
                s = line[len('<<"REPLAY", '):].rstrip()
                if s.endswith(">>"):
                    s = s[:-2]
                try:
                    cases.append(json.loads(json.loads(s)))
                except Exception:
                    raise ToolError("cannot parse REPLAY line of %s: %r" % (tag, line[:200]))
        res["cases"] = cases
    if not ok:
        if rc == -9:
            raise ToolError("TLC timeout on %s (see %s)" % (tag, out_path))
        if "Invariant" in text and "is violated" in text or "Temporal properties were violated" in text or "failed" in text and "Evaluating invariant" in text:
            res["violation"] = True
        else:
            raise ToolError("TLC failed on %s (rc=%s, see %s)" % (tag, rc, out_path))
    return res


# --------------------------------------------------------------------------- harness

def build_harness(profile):
    cmd = ["cargo", "build", "--quiet"]
    if profile == "release":
        cmd.append("--release")
    elif profile != "dev":
        cmd += ["--profile", profile]
    e = dict(os.environ, CARGO_NET_OFFLINE="true")
    p = subprocess.run(cmd, cwd=HARNESS, env=e, stdout=subprocess.PIPE, stderr=subprocess.STDOUT, text=True)
    if p.returncode != 0:
        raise ToolError("harness build (%s) failed:\n%s" % (profile, p.stdout[-4000:]))
    return os.path.join(TARGET, "debug" if profile == "dev" else profile, "vharness")


def harness_gen(binary, family, seed, count, tier, out, params=None):
    cmd = [binary, "gen", family, "--seed", str(seed), "--count", str(count), "--tier", tier, "--out", out]
    for k, v in (params or {}).items():
        cmd += ["--param", "%s=%s" % (k, v)]
    p = subprocess.run(cmd, stdout=subprocess.PIPE, stderr=subprocess.STDOUT, text=True)
    if p.returncode != 0:
        raise ToolError("harness gen failed: %s" % p.stdout[-2000:])


def last_case_index(path):
    if not os.path.exists(path) or os.path.getsize(path) == 0:
        return -1
    with open(path, "rb") as f:
        f.seek(0, 2)
        size = f.tell()
        back = min(size, 1 << 20)
        f.seek(size - back)
        tail = f.read().decode(errors="replace")
    lines = [x for x in tail.split("\n") if x.strip()]
    # the last line may be torn if the process died mid-write
    for cand in reversed(lines):
        try:
            return int(json.loads(cand)["case"])
        except Exception:
            continue
    return -1


def truncate_torn_line(path):
    if not os.path.exists(path):
        return
    with open(path, "rb+") as f:
        data = f.read()
        if data and not data.endswith(b"\n"):
            cut = data.rfind(b"\n") + 1
            f.truncate(cut)


def harness_run(binary, family, case_files, out, params, n_cases, timeout_ms=5000, profile="dev"):
    """Runs all cases; a worker that dies (abort) or exceeds the per-case budget (exit 3)
    yields an observation with ev = "abort"/"timeout" for that case and is restarted after it."""
    if os.path.exists(out):
        os.remove(out)
    skip = 0
    restarts = 0
    while True:
        cmd = [binary, "run", family, "--cases", ",".join(case_files), "--out", out,
               "--skip", str(skip), "--timeout-ms", str(timeout_ms)]
        for k, v in params.items():
            cmd += ["--param", "%s=%s" % (k, v)]
        p = subprocess.run(cmd, stdout=subprocess.PIPE, stderr=subprocess.PIPE, text=True)
        if p.returncode == 0:
            break
        if p.returncode == 2:
            raise ToolError("harness error: %s" % p.stderr[-2000:])
        truncate_torn_line(out)
        failed = max(last_case_index(out) + 1, skip)
        kind = "timeout" if p.returncode == 3 else "abort"
        with open(out, "a") as f:
            f.write(json.dumps({"ev": kind, "case": failed, "rc": p.returncode if abs(p.returncode) < 1000 else 999}) + "\n")
        skip = failed + 1
        restarts += 1
        if restarts >= 40:
            # the code under test kills the worker case after case: every death already is a rejected observation
            # (abort / timeout are never acceptable outcomes), the remaining cases of the stage add nothing
            log("  harness died %d times in this stage: remaining cases not run" % restarts)
            break
        if skip >= n_cases:
            break
    return restarts


# --------------------------------------------------------------------------- traces

TOKEN_RE = re.compile(r'"(?:[^"\\]|\\.)*"|-?\d+(?:\.\d+)?(?:[eE][-+]?\d+)?|true|false|null|[\[\]{}:,]|\s+')


def lint_line(line):
    """Only ints with |v| < 2^30, strings, booleans, arrays, objects (TLC's Json module wraps,
    truncates or rejects anything else)."""
    pos = 0
    for m in TOKEN_RE.finditer(line):
        if m.start() != pos:
            return "unexpected text at %d" % pos
        pos = m.end()
        t = m.group(0)
        if t == "null":
            return "null"
        if t[0] in "-0123456789":
            if "." in t or "e" in t or "E" in t:
                return "non-integer number %s" % t
            if abs(int(t)) >= INT_LIMIT:
                return "integer out of range %s" % t
    if pos != len(line):
        return "unexpected text at %d" % pos
    return None


def lint_file(path):
    """Checks every observation line.  A line TLC's Json reader would misread (a value outside the
    loggable range: the code under test produced something the projection cannot express) is replaced by
    an event {"ev": "unloggable"} that every trace specification rejects, so it is reported as a
    violating observation of that case instead of being silently wrapped or truncated."""
    n = 0
    out = []
    changed = False
    with open(path, errors="replace") as f:
        for k, line in enumerate(f):
            line = line.rstrip("\n")
            if not line:
                continue
            err = lint_line(line)
            if not err:
                try:
                    json.loads(line)
                except Exception:
                    err = "not valid JSON"
            if "\ufffd" in line:
                err = "undecodable bytes (memory corrupted by the code under test?)"
            if err:
                m = re.search(r'"case":\s*(\d+)', line)
                case = int(m.group(1)) if m else -1
                out.append(json.dumps({"ev": "unloggable", "case": case, "why": err[:200]}))
                changed = True
            else:
                out.append(line)
            n += 1
    if changed:
        with open(path, "w") as f:
            f.write("\n".join(out) + "\n")
    return n


def parse_register(text, name):
    m = re.search(r'<<\s*"%s",\s*\{(.*?)\}\s*>>' % name, text, re.S)
    if not m:
        return None
    return [int(x) for x in re.findall(r"-?\d+", m.group(1))]


def validate_trace(ctx, trace_module, constants, obs_path, prop, tagbase, chunk=60000, parallel=6, spec="Spec"):
    """Validates obs_path with spec/<trace_module>.tla in chunks.  Returns (bad, drift, consumed)."""
    lines = [x for x in open(obs_path).read().split("\n") if x.strip()]
    # chunks never split the observations of one case (a stateful history must stay in one piece)
    case_re = re.compile(r'"case":\s*(\d+)')
    chunks, cur, last_case = [], [], None
    for x in lines:
        m = case_re.search(x)
        c = m.group(1) if m else None
        if len(cur) >= chunk and c != last_case:
            chunks.append(cur)
            cur = []
        cur.append(x)
        last_case = c
    chunks.append(cur)
    bad, drift, consumed = [], [], 0
    cfg_path = os.path.join(ctx["dir"], tagbase + ".cfg")
    write_cfg(cfg_path, dict(spec=spec, constants=constants, post="Report"))
    jobs = []
    for ci, ch in enumerate(chunks):
        if not ch:
            continue
        cpath = os.path.join(ctx["dir"], "%s_chunk%d.ndjson" % (tagbase, ci))
        with open(cpath, "w") as f:
            f.write("\n".join(ch) + "\n")
        jobs.append((ci, ch, cpath))
    # run up to `parallel` single-worker JVMs at a time
    import concurrent.futures
    def work(job):
        ci, ch, cpath = job
        # An observation the specification cannot even evaluate (garbage written by the code under test into a
        # record, a value that overflows the evaluator) is replaced by an "unloggable" event - which every trace
        # specification rejects - and the chunk is validated again, so that it is reported as a violating
        # observation of that case rather than as a tool error.
        for attempt in range(25):
            rc, out_path, secs = run_tlc(trace_module, cfg_path, ctx["dir"], "%s_%d" % (tagbase, ci), workers=1,
                                         env={"TRACE": cpath, "PROP": prop}, heap="3g", timeout=1800, trace_mode=True)
            text = open(out_path, errors="replace").read()
            if "Model checking completed" in text or "TLC threw an unexpected exception" not in text and "Error: Evaluating" not in text:
                break
            ls = [int(x) for x in re.findall(r"^/?\\?\s*l = (\d+)", text, re.M)]
            if not ls or max(ls) > len(ch):
                break
            k = max(ls)
            m = re.search(r'"case":\s*(\d+)', ch[k - 1])
            why = re.search(r"The exception was a [^\n]*\n: ([^\n]*)", text)
            ch[k - 1] = json.dumps({"ev": "unloggable", "case": int(m.group(1)) if m else -1,
                                    "why": "the specification could not evaluate this observation: " + (why.group(1)[:160] if why else "evaluation error")})
            with open(cpath, "w") as f:
                f.write("\n".join(ch) + "\n")
        return ci, ch, rc, out_path
    with concurrent.futures.ThreadPoolExecutor(max_workers=parallel) as ex:
        results = list(ex.map(work, jobs))
    for ci, ch, rc, out_path in results:
        text = open(out_path, errors="replace").read()
        b = parse_register(text, "BAD")
        d = parse_register(text, "DRIFT")
        kn = set(parse_register(text, "KNOWN") or [])
        m = re.search(r'<<"CONSUMED", (\d+), "OF", (\d+)>>', text)
        if b is None or d is None or not m or "Model checking completed" not in text:
            raise ToolError("trace validation failed to run (see %s)" % out_path)
        if int(m.group(1)) != len(ch) or int(m.group(2)) != len(ch):
            raise ToolError("trace validation consumed %s of %d events (see %s)" % (m.group(1), len(ch), out_path))
        consumed += len(ch)
        for x in b:
            rec = json.loads(ch[x - 1])
            if x in kn:
                rec["known_class"] = KNOWN_CLASS.get(trace_module, "?")     # the specification recognised a recorded known finding
            bad.append(rec)
        for x in d:
            drift.append(json.loads(ch[x - 1]))
    return bad, drift, consumed


# --------------------------------------------------------------------------- findings

def load_findings():
    p = os.path.join(ROOT, "known_findings.json")
    if not os.path.exists(p):
        return []
    return json.load(open(p)).get("findings", [])


def matches(match, rec):
    for k, want in match.items():
        got = rec.get(k)
        if isinstance(want, dict):
            if "ge" in want and not (isinstance(got, (int, float)) and got >= want["ge"]):
                return False
            if "le" in want and not (isinstance(got, (int, float)) and got <= want["le"]):
                return False
            if "in" in want and got not in want["in"]:
                return False
        elif isinstance(want, list):
            if got not in want:
                return False
        elif got != want:
            return False
    return True


def split_known(prop, bad):
    known, new = [], []
    fs = [f for f in load_findings() if f.get("status") == "known" and prop in f.get("properties", [f.get("property")])]
    for rec in bad:
        hit = None
        for f in fs:
            if matches(f["match"], rec):
                hit = f
                break
        if hit:
            known.append((hit, rec))
        else:
            new.append(rec)
    return known, new


# --------------------------------------------------------------------------- evidence

def strip_case(o):
    return {k: v for k, v in o.items() if k not in ("case", "src")}


def write_evidence(prop, tier, seed, cov, assumptions, wall, violations):
    os.makedirs(EVID, exist_ok=True)
    ev = dict(property_id=prop, tier=tier, seed=seed, level="model_checking", coverage=cov,
              assumptions=assumptions, wall_s=round(wall, 1), violations=violations)
    tmp = os.path.join(EVID, ".%s.json.%d" % (prop, os.getpid()))
    with open(tmp, "w") as f:
        json.dump(ev, f, indent=1)
    os.replace(tmp, os.path.join(EVID, prop + ".json"))


def save_replay(prop, rec):
    os.makedirs(REPLAYS, exist_ok=True)
    h = hashlib.sha1(json.dumps(rec, sort_keys=True).encode()).hexdigest()[:12]
    path = os.path.join(REPLAYS, "%s-%s.json" % (prop, h))
    with open(path, "w") as f:
        json.dump(rec, f, indent=1)
    return path


# --------------------------------------------------------------------------- running a plan

def read_case(case_files, idx):
    k = 0
    for cf in case_files:
        with open(cf) as f:
            for line in f:
                if not line.strip():
                    continue
                if k == idx:
                    return json.loads(line)
                k += 1
    return None


def run_stage(ctx, plan, st, seed, tier, models_cases):
    """One harness stage: cases -> real code -> observations -> TLC verdict."""
    prop = ctx["prop"]
    profile = st.get("profile", "dev")
    binary = build_harness(profile)
    tag = st["name"]
    case_files = []
    n_cases = 0
    for src in st.get("cases_from", []):
        cases = models_cases.get(src, [])
        cap = st.get("cap")
        path = os.path.join(ctx["dir"], "cases_%s_%s.ndjson" % (tag, src))
        with open(path, "w") as f:
            for c in cases:
                f.write(json.dumps(c) + "\n")
        case_files.append(path)
        n_cases += len(cases)
    g = st.get("gen")
    if g:
        path = os.path.join(ctx["dir"], "cases_%s_gen.ndjson" % tag)
        count = g["count"][0 if tier == "quick" else 1]
        harness_gen(binary, st["family"], seed, count, tier, path, g.get("params"))
        case_files.append(path)
        n_cases += sum(1 for x in open(path) if x.strip())
    for path in st.get("case_files", []):
        case_files.append(path)
        n_cases += sum(1 for x in open(path) if x.strip())
    if n_cases == 0:
        raise ToolError("stage %s has no cases" % tag)
    obs = os.path.join(ctx["dir"], "obs_%s.ndjson" % tag)
    t0 = time.time()
    restarts = harness_run(binary, st["family"], case_files, obs, st.get("params", {}), n_cases,
                           timeout_ms=st.get("timeout_ms", 5000), profile=profile)
    t_h = time.time() - t0
    n_obs = lint_file(obs)
    t0 = time.time()
    bad, drift, consumed = validate_trace(ctx, st["trace"], st.get("trace_constants", {}), obs, prop, "tr_" + tag,
                                          chunk=st.get("chunk", 60000), spec=st.get("trace_spec", "Spec"))
    t_v = time.time() - t0
    # replay records for rejected events
    viol = []
    for rec in bad:
        case = read_case(case_files, rec.get("case", -1))
        viol.append(dict(property=prop, stage=tag, family=st["family"], profile=profile, params=st.get("params", {}),
                         trace=st["trace"], trace_constants=st.get("trace_constants", {}), trace_spec=st.get("trace_spec", "Spec"), case=case, obs=rec))
    # samples and distinct count
    samples = []
    distinct = set()
    nontrivial = 0
    with open(obs) as f:
        for k, line in enumerate(f):
            if not line.strip():
                continue
            o = json.loads(line)
            if len(samples) < 3 or (k % max(1, n_obs // 3) == 0 and len(samples) < 6):
                samples.append(o)
            key = hashlib.md5(json.dumps(strip_case(o), sort_keys=True).encode()).digest()
            if key not in distinct:
                distinct.add(key)
                if plan["nontrivial"](o):
                    nontrivial += 1
    return dict(stage=tag, profile=profile, cases=n_cases, observations=n_obs, accepted=consumed - len(bad),
                rejected=len(bad), drift=len(drift), drift_samples=drift[:3], restarts=restarts,
                distinct=len(distinct), distinct_nontrivial=nontrivial, samples=samples,
                harness_s=round(t_h, 1), validate_s=round(t_v, 1)), viol


def run_property(prop, tier, seed):
    from vlib import plans
    if prop not in plans.PLANS:
        log("unknown or unclaimed property %s" % prop)
        return 2
    plan = plans.PLANS[prop](tier)
    t_start = time.time()
    wd = os.path.join(WORK, "%s.%s.%d" % (prop, tier, os.getpid()))
    shutil.rmtree(wd, ignore_errors=True)
    os.makedirs(wd)
    ctx = dict(prop=prop, tier=tier, dir=wd)
    violations = []       # replay records
    model_results = []
    models_cases = {}
    try:
        # 1. models
        for m in plan["models"]:
            r = model_check(ctx, m)
            if "cases" in r:
                models_cases[m["name"]] = r.pop("cases")
                r["emitted"] = len(models_cases[m["name"]])
            model_results.append(r)
            log("  model %-22s %9d states %9d transitions %6.1fs %s" % (r["name"], r["distinct"], r["generated"], r["seconds"],
                                                                      "ok" if r["ok"] else "VIOLATED"))
            if r.get("violation"):
                keep = os.path.join(REPLAYS, "%s-model-%s.out" % (prop, r["name"]))
                os.makedirs(REPLAYS, exist_ok=True)
                shutil.copy(r["out"], keep)
                violations.append(dict(property=prop, model=r["name"], tlc_output=keep, obs={"ev": "model", "model": r["name"]}))
        # 2. stages
        stage_results = []
        for st in plan["stages"]:
            sr, viol = run_stage(ctx, plan, st, seed, tier, models_cases)
            stage_results.append(sr)
            violations.extend(viol)
            log("  stage %-22s %8d cases %8d obs  rejected %d drift %d  (harness %.1fs, TLC %.1fs)" %
                (sr["stage"], sr["cases"], sr["observations"], sr["rejected"], sr["drift"], sr["harness_s"], sr["validate_s"]))
            if sr["drift"]:
                log("  DRIFT property=%s stage=%s events=%d (accepted by the abstract predicate; transcription is stale) e.g. %s" %
                    (prop, sr["stage"], sr["drift"], json.dumps(sr["drift_samples"][0])[:300]))
    except ToolError as e:
        log("TOOL-ERROR %s" % e)
        return 2
    # 3. known findings
    known, new = [], []
    for v in violations:
        k, n = split_known(prop, [dict(v["obs"], **{"_stage": v.get("stage", "")})])
        if k:
            known.append((k[0][0], v))
        else:
            new.append(v)
    seen = set()
    for f, v in known:
        if f["id"] not in seen:
            seen.add(f["id"])
            cnt = sum(1 for g, _ in known if g["id"] == f["id"])
            log("KNOWN-FINDING: property=%s %s (%s; %d observations this run)" % (prop, f["id"], f["what"], cnt))
    paths = []
    for v in new[:8]:
        paths.append(save_replay(prop, v))
    for p in paths:
        log("VIOLATION property=%s replay=%s" % (prop, p))
    if len(new) > len(paths):
        log("  (%d further violating observations not written out)" % (len(new) - len(paths)))
    # 4. evidence
    states = sum(r["distinct"] for r in model_results)
    trans = sum(r["generated"] for r in model_results)
    samples = []
    for sr in stage_results:
        samples.extend(sr.pop("samples")[:3])
    cov = dict(
        states=states, transitions=trans,
        traces_validated_against_impl=sum(sr["accepted"] for sr in stage_results),
        samples=samples[:8] or [{"note": "no harness stage"}],
        evaluations=sum(sr["observations"] for sr in stage_results),
        distinct_nontrivial=sum(sr["distinct_nontrivial"] for sr in stage_results),
        rule=plan["rule"],
        exhaustive=bool(plan.get("exhaustive", False)),
        models=[{k: v for k, v in r.items() if k != "out"} for r in model_results],
        stages=stage_results,
        drift_events=sum(sr["drift"] for sr in stage_results),
        known_findings=sorted(seen),
        checker_cmd="java -cp tla2tools.jar tlc2.TLC (models: -workers 8; trace validation: -workers 1, StateDeque)",
        trusted_base=plan.get("trusted", []) + ["TLC 1.8.0 and the CommunityModules Json reader", "the harness' projections (rank/bit/grid) and ndarray's logical iterators used to read arrays back"],
        explanation=plan.get("explanation", ""),
    )
    write_evidence(prop, tier, seed, cov, plan.get("assumptions", []), time.time() - t_start, len(new))
    if not new and not os.environ.get("VERIF_KEEP"):
        shutil.rmtree(wd, ignore_errors=True)
    log("%s %s: %s (%.0fs; %d states, %d observations validated)" % (prop, tier, "VIOLATED" if new else "ok",
                                                                   time.time() - t_start, states, cov["traces_validated_against_impl"]))
    return 1 if new else 0


def run_replay(prop, path):
    rec = json.load(open(path))
    if "tlc_output" in rec:
        log("model-level violation; TLC output kept at %s" % rec["tlc_output"])
        return 1
    wd = os.path.join(WORK, "%s.replay.%d" % (prop, os.getpid()))
    shutil.rmtree(wd, ignore_errors=True)
    os.makedirs(wd)
    ctx = dict(prop=prop, tier="quick", dir=wd)
    try:
        binary = build_harness(rec.get("profile", "dev"))
        cf = os.path.join(wd, "case.ndjson")
        with open(cf, "w") as f:
            f.write(json.dumps(rec["case"]) + "\n")
        obs = os.path.join(wd, "obs.ndjson")
        harness_run(binary, rec["family"], [cf], obs, rec.get("params", {}), 1)
        lint_file(obs)
        bad, drift, consumed = validate_trace(ctx, rec["trace"], rec.get("trace_constants", {}), obs, prop, "tr_replay", spec=rec.get("trace_spec", "Spec"))
    except ToolError as e:
        log("TOOL-ERROR %s" % e)
        return 2
    for o in open(obs):
        log("  observation: " + o.strip()[:600])
    known, new = split_known(prop, bad)
    for f, r in known:
        log("KNOWN-FINDING: property=%s %s (%s)" % (prop, f["id"], f["what"]))
    if new:
        log("VIOLATION property=%s replay=%s" % (prop, path))
        return 1
    log("replay: %d observation(s) accepted" % consumed)
    shutil.rmtree(wd, ignore_errors=True)
    return 0


def setup():
    try:
        for prof in ("dev", "release", "relda", "reloc"):
            build_harness(prof)
            log("harness %s built" % prof)
    except ToolError as e:
        log("TOOL-ERROR %s" % e)
        return 2
    bad = 0
    for f in sorted(os.listdir(SPEC)):
        if f.endswith(".tla"):
            # the proof modules extend TLAPS.tla / NaturalsInduction.tla, which live in tlapm's library, not in tla2tools
            lib = ["-DTLA-Library=/opt/veriftools/tlapm/lib/tlapm/stdlib"] if f.endswith("Proof.tla") else []
            p = subprocess.run(["java"] + lib + ["-cp", JAR, "tla2sany.SANY", f], cwd=SPEC, stdout=subprocess.PIPE, stderr=subprocess.STDOUT, text=True)
            if p.returncode != 0 or "Semantic errors" in p.stdout or "Parse Error" in p.stdout or "Fatal errors" in p.stdout:
                log("SANY failed on %s:\n%s" % (f, p.stdout[-1500:]))
                bad += 1
    log("specs parsed (%d failures)" % bad)
    return 2 if bad else 0


def main(argv):
    if not argv:
        log(__doc__)
        return 2
    if argv[0] == "--setup":
        return setup()
    if argv[0] == "--selftest":
        from vlib import selftest
        return selftest.main(argv[1:])
    prop = argv[0]
    seed = int(os.environ.get("VERIF_SEED", "20261002"))
    if len(argv) >= 3 and argv[1] == "--replay":
        return run_replay(prop, argv[2])
    tier = argv[1] if len(argv) > 1 else os.environ.get("VERIF_TIER", "quick")
    if tier not in ("quick", "thorough"):
        log("tier must be quick or thorough")
        return 2
    return run_property(prop, tier, seed)
