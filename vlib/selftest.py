"""./check --selftest : demonstrations that the machinery is bound to the code and not vacuous.

 1. regress: every spec/regress/*.cfg models the code of the pinned commit (before the "fix:" commits) or the
    strict form of a property with a known finding; TLC must FIND the counterexample (the models can see the
    bug classes that were repaired).
 2. binding: for every trace validator, observations recorded from the real code are accepted; the same
    observations with ONE recorded field corrupted (or one hook event dropped) are rejected (verdict) or flagged
    (drift) at exactly that event.
 3. vacuity: the main models are run with -coverage 1; an action that was never taken fails the self-test.

Exit 0 when every demonstration behaves as expected, 1 otherwise.
"""
import copy
import json
import os
import shutil
import sys

from vlib import engine, plans

REGRESS = [
    ("Partition", "MC_Partition_prefix", "PanicIffOutOfRange"),
    ("Partition", "MC_Partition_refines_prefix", "PartitionAlg"),      # the pre-fix machine is NOT a refinement of the proved one
    ("Select", "MC_Select_prefix", "DoneOK"),
    ("Bulk", "MC_Bulk_prefix", "DoneOK"),
    ("RemoveNan", "MC_RemoveNan_prefix", "DoneOK"),
    ("Quantile", "MC_Quantile_F6", "ValuesOK"),
    ("EquiSpaced", "MC_EquiSpaced_prefix", "DoneOK"),
    ("Summary", "MC_Summary_prefix", "MomentAlgebraOK"),
    ("Correlation", "MC_Correlation_collinear", "StrictCS"),          # exactly collinear variables are among the behaviours
]


def regress(ctx):
    ok = True
    for module, cfg, inv in REGRESS:
        cfg_path = os.path.join(engine.SPEC, "regress", cfg + ".cfg")
        rc, out_path, secs = engine.run_tlc(module, cfg_path, ctx["dir"], "regress_" + cfg, workers=4, heap="4g", timeout=900)
        text = open(out_path, errors="replace").read()
        found = ("is violated" in text or "Evaluating invariant" in text) and inv in text
        engine.log("  regress %-28s %s (%.0fs)" % (cfg, "counterexample found, as expected (%s)" % inv if found else "NO COUNTEREXAMPLE - model is blind", secs))
        ok &= found
    return ok


def set_path(o, path, fn):
    cur = o
    for k in path[:-1]:
        cur = cur[k]
    cur[path[-1]] = fn(cur[path[-1]])


# (family, gen params, run params, trace module, trace spec, trace constants, event filter, corruption, expected register)
HC = dict(NAxes=1, Dom=1, MaxEdges=1, Depth=1, Emit=False)
BINDINGS = [
    ("sort", {"kinds": "select", "oor_den": "0"}, {}, "Trace_Sort", "Spec", plans.FIX, lambda o: o["ev"] == "select" and len(o["a"]) >= 3 and len(set(o["a"])) >= 3,
     [("returned element replaced by another", lambda o: set_path(o, ["ret"], lambda v: v % max(o["a"]) + 1), "BAD"),
      ("one element of the array after the call duplicated", lambda o: set_path(o, ["after", 0], lambda v: o["after"][-1] if o["after"][-1] != v else v + 1), "BAD"),
      ("the other handle of a shared array reported as changed", lambda o: set_path(o, ["other_ok"], lambda v: False), "BAD"),
      ("last pivot event of the hook dropped", lambda o: set_path(o, ["pv"], lambda v: v[:-1]), "DRIFT")]),
    ("sort", {"kinds": "partition", "oor_den": "0"}, {}, "Trace_Sort", "Spec", plans.FIX, lambda o: o["ev"] == "partition" and len(set(o["a"])) >= 3,
     [("returned partition index off by one", lambda o: set_path(o, ["k"], lambda v: v + 1), "BAD")]),
    ("nan", {"kinds": "remove_nan"}, {}, "Trace_Nan", "Spec", plans.FIX3, lambda o: o["ev"] == "remove_nan" and o["vout"]["len"] >= 2 and abs(o["vin"]["stride"]) >= 2,
     [("stride of the returned view replaced by 1", lambda o: set_path(o, ["vout", "stride"], lambda v: 1), "BAD"),
      ("length of the returned view decremented", lambda o: set_path(o, ["vout", "len"], lambda v: v - 1), "BAD"),
      ("a missing cell handed out as a typed reference", lambda o: set_path(o, ["tnn"], lambda v: [(-99 if (x == 0 and k == [i for i, y in enumerate(v) if y == 0][0]) else x) for k, x in enumerate(v)] if 0 in v else v[:-1]), "BAD")]),
    ("quant", {}, {}, "Trace_Quant", "Spec", {}, lambda o: o["ev"] == "quantile" and o["out"] == "ok" and o["strat"] in ("lower", "higher") and len(o["res"]) >= 1 and not o["wide"],
     [("first result element incremented", lambda o: set_path(o, ["res", 0], lambda v: v + 1), "BAD"),
      ("result of the repeated call differs", lambda o: set_path(o, ["res2", 0], lambda v: v + 1), "BAD"),
      ("one parent cell outside the view changed", lambda o: set_path(o, ["mem1"], lambda v: v + [-3]), "BAD"),
      ("first element of the receiver after the call moved by one cell", lambda o: set_path(o, ["g1", "ptr"], lambda v: v + 1), "BAD")]),
    ("minmax", {"kinds": "minmax"}, {}, "Trace_MinMax", "Spec", {}, lambda o: o["ev"] == "minmax" and o["ty"] == "f64" and o["min"]["out"] == "ok" and len(set(o["r"])) >= 2,
     [("rank of the returned minimum incremented", lambda o: set_path(o, ["min", "rank"], lambda v: v + 1), "BAD")]),
    ("hist", {"kinds": "hist"}, {}, "Trace_Hist", "TSpec", HC, lambda o: o["ev"] == "hist_add" and o["res"] == "ok",
     [("one count of one step incremented", lambda o: set_path(o, ["counts", 0], lambda v: v + 1), "BAD")]),
    ("err", {}, {}, "Trace_Err", "TSpec", dict(Emit=False), lambda o: o["ev"] == "err" and o["out"] == "ShapeMismatch",
     [("payload shapes swapped", lambda o: (o.__setitem__("first", o["second"] + [9])), "BAD")]),
    ("num", {"kinds": "c06"}, {}, "Trace_Num", "Spec", {}, lambda o: o["ev"] == "summ" and o["stat"] == "mean" and o["out"] == "ok",
     [("result moved by 40 quanta", lambda o: set_path(o, ["res"], lambda v: v + 40), "BAD")]),
    ("num", {"kinds": "corr"}, {}, "Trace_Num", "Spec", {}, lambda o: o["ev"] == "corr" and o["cov_out"] == "ok" and len(o["rows"]) >= 2,
     [("one off-diagonal covariance moved by 3 quanta", lambda o: set_path(o, ["cov", 0, 1], lambda v: v + 3), "BAD"),
      ("unit diagonal of the correlation moved by 3 quanta", lambda o: set_path(o, ["pear", 0, 0], lambda v: v - 3), "BAD")]),
    ("num", {"kinds": "dev"}, {}, "Trace_Num", "Spec", {}, lambda o: o["ev"] == "devscale" and o["ty"] == "f64" and o["dexp"] < 0,
     [("l2 distance of subnormal differences reported as not finite", lambda o: set_path(o, ["l2c"], lambda v: "nan"), "BAD"),
      ("largest difference off by one quarter", lambda o: set_path(o, ["linfq"], lambda v: v + 1), "BAD")]),
    ("layout", {}, {}, "Trace_Layout", "Spec", {}, lambda o: o["ev"] == "layout" and o["kind"] == "exact" and len(o["reps"][2]["v"]) >= 1,
     [("result on one representation changed", lambda o: set_path(o, ["reps", 2, "v", 0], lambda v: v + 1), "BAD")]),
]


def bindings(ctx):
    ok = True
    binary = engine.build_harness("dev")
    for k, (family, gparams, rparams, trace, tspec, tconst, flt, corruptions) in enumerate(BINDINGS):
        cases = os.path.join(ctx["dir"], "bind%d_cases.ndjson" % k)
        obs = os.path.join(ctx["dir"], "bind%d_obs.ndjson" % k)
        engine.harness_gen(binary, family, 4242 + k, 120 if family != "layout" else 6, "quick", cases, gparams)
        n_cases = sum(1 for x in open(cases) if x.strip())
        engine.harness_run(binary, family, [cases], obs, rparams, n_cases)
        engine.lint_file(obs)
        lines = [json.loads(x) for x in open(obs) if x.strip()][:600]
        bad, drift, consumed = engine.validate_trace(ctx, trace, tconst, write(ctx, "bind%d_clean.ndjson" % k, lines), "SELFTEST", "bind%d_clean" % k, spec=tspec)
        clean_ok = not bad and not drift and consumed == len(lines)
        engine.log("  binding %-7s %-13s %4d real observations accepted unchanged: %s" % (family, trace, len(lines), "yes" if clean_ok else "NO (%d rejected, %d drift)" % (len(bad), len(drift))))
        ok &= clean_ok
        target = next((i for i, o in enumerate(lines) if flt(o)), None)
        if target is None:
            engine.log("    no suitable event to corrupt - self-test inconclusive")
            ok = False
            continue
        for what, fn, expect in corruptions:
            mod = copy.deepcopy(lines)
            fn(mod[target])
            bad, drift, consumed = engine.validate_trace(ctx, trace, tconst, write(ctx, "bind%d_mod.ndjson" % k, mod), "SELFTEST", "bind%d_mod" % k, spec=tspec)
            hit = bad if expect == "BAD" else drift
            # stateful validation re-synchronises to the (corrupted) logged state, so the step after it is reported too
            limit = 2 if family == "hist" else 1
            good = 1 <= len(hit) <= limit and hit[0].get("case") == mod[target].get("case") and (expect == "BAD" or not bad)
            engine.log("    corrupted (%s): %s" % (what, "reported at exactly that event (%s)" % expect if good else "NOT DETECTED as expected (bad=%d drift=%d)" % (len(bad), len(drift))))
            ok &= good
    return ok


def write(ctx, name, objs):
    p = os.path.join(ctx["dir"], name)
    with open(p, "w") as f:
        for o in objs:
            f.write(json.dumps(o) + "\n")
    return p


def vacuity(ctx):
    ok = True
    seen = set()
    for prop, mk in sorted(plans.PLANS.items()):
        for m in mk("quick")["models"]:
            if m.get("engine"):          # Apalache / TLAPS entries have no actions to count
                continue
            key = (m["module"], json.dumps(m["cfg"].get("constants", {}), sort_keys=True))
            if m.get("emit") or key in seen:
                continue
            seen.add(key)
            m = dict(m, coverage=True)
            r = engine.model_check(ctx, m)
            # dead by design in the repaired code: with the range check at the entry points the empty-range panic of
            # gen_range(0..0) and the debug assertions of the bulk recursion are unreachable (they are reached only in the
            # regress configurations); CheckRange cannot fire when only in-range requests are explored
            dead_ok = {"EmptyRangePanic", "DebugAssertFail"} | ({"CheckRange"} if m["cfg"].get("constants", {}).get("OutOfRange") is False else set())
            never = [a for a, c in r.get("actions", {}).items() if c == 0 and a not in ("Init",) and a not in dead_ok]
            engine.log("  vacuity %-24s %-22s %8d states, actions: %s%s" % (prop + "/" + r["name"], m["module"], r["distinct"],
                       ", ".join("%s=%d" % kv for kv in sorted(r.get("actions", {}).items())), "  NEVER TAKEN: " + ",".join(never) if never else ""))
            ok &= r["ok"] and not never
    return ok


def main(argv):
    wd = os.path.join(engine.WORK, "selftest.%d" % os.getpid())
    shutil.rmtree(wd, ignore_errors=True)
    os.makedirs(wd)
    ctx = dict(prop="SELFTEST", tier="quick", dir=wd)
    which = argv or ["regress", "binding", "vacuity"]
    ok = True
    try:
        if "regress" in which:
            ok &= regress(ctx)
        if "binding" in which:
            ok &= bindings(ctx)
        if "vacuity" in which:
            ok &= vacuity(ctx)
    except engine.ToolError as e:
        engine.log("TOOL-ERROR %s" % e)
        return 2
    engine.log("selftest: %s" % ("all demonstrations behave as expected" if ok else "FAILED"))
    if ok:
        shutil.rmtree(wd, ignore_errors=True)
    return 0 if ok else 1
