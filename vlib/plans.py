"""Which models, harness families and trace validators decide which property.

A plan is data: `models` (TLC runs over spec/<module>.tla with the given constants; a
model with emit=True prints one REPLAY line per complete behaviour, which becomes a case
for the harness), `stages` (harness runs on the real code followed by trace validation
with spec/<trace>.tla), and the rule by which observations are counted as non-trivial.
"""

FIX = dict(FixF1=True, FixF2=True)

SORT_ASSUME = [
    "Ord of the element type is a lawful total order; the generic code is monomorphised from one source, "
    "so i64 lanes stand for every Ord + Clone element type (comparison-only argument)",
    "exhaustive up to the stated length bound; longer lanes are sampled by the randomized driver",
]


def q(tier, a, b):
    return a if tier == "quick" else b


def sort_nontrivial(o):
    return len(o.get("a", [])) >= 2


def C15(tier):
    n_mc = q(tier, 6, 7)
    n_emit = q(tier, 5, 6)
    inv = ["TypeOK", "BagInv", "CursorInv", "LoopInv", "DoneOK", "PanicIffOutOfRange", "TwinOK"]
    models = [
        dict(module="Partition", name="MC_Partition",
             cfg=dict(constants=dict(FIX, N=n_mc, NMin=0, OutOfRange=True, Emit=False), invariants=inv, properties=["Terminates", "RefinesProof"])),
        dict(module="Partition", name="MC_Partition_emit", emit=True,
             cfg=dict(constants=dict(FIX, N=n_emit, NMin=1, OutOfRange=False, Emit=True), invariants=["DoneOK", "PanicIffOutOfRange", "EmitInv"],
                      properties=["RefinesProof"])),
        # independent look at the pattern-completeness argument: symbolic integer contents (Apalache)
        dict(engine="apalache", module="PartitionSym", name="AP_PartitionSym", maxn=q(tier, 6, 9), length=q(tier, 28, 40)),
        # every array length: the invariant of PartitionAlg (cursor safety, loop invariant, never "panic", arrangement at return)
        # is proved inductive by TLAPS; MC_Partition_emit checks that Partition refines PartitionAlg (property RefinesProof)
        dict(engine="tlaps", module="PartitionProof", name="TLAPS_PartitionProof", deps=["PartitionAlg"]),
    ]
    stages = [
        dict(name="replay_dev", family="sort", trace="Trace_Sort", trace_constants=FIX, profile="dev",
             cases_from=["MC_Partition_emit"], params={"strides": "1/2/-1/-3"}),
        dict(name="replay_release", family="sort", trace="Trace_Sort", trace_constants=FIX, profile="release",
             cases_from=["MC_Partition_emit"], params={"strides": "1/-3" if tier == "quick" else "1/2/-1/-3"}),
        dict(name="random_dev", family="sort", trace="Trace_Sort", trace_constants=FIX, profile="dev", chunk=5000,
             gen=dict(count=(3000, 30000), params={"kinds": "partition", "oor_den": "0"})),
        # lengths around multiples of 64 (where block-wise partition schemes change behaviour)
        dict(name="block_lengths", family="sort", trace="Trace_Sort", trace_constants=FIX, profile="release", chunk=400,
             gen=dict(count=(2400, 12000), params={"kinds": "partition", "oor_den": "0", "long": "2"})),
    ]
    return dict(models=models, stages=stages, nontrivial=sort_nontrivial, exhaustive=True,
                rule="every canonical weak-order pattern of length 1..%d x every in-range pivot position (emitted by TLC from "
                     "MC_Partition_emit) replayed on strides 1,2,-1,-3 in dev and release builds, plus randomized lanes up to "
                     "40 (quick) / 64 (thorough) elements (one in five on a shared ArcArray1 handle or a borrowing CowArray) and lanes of "
                     "63..257 elements around the multiples of 64; an observation is non-trivial when the lane has >= 2 elements; distinct = distinct "
                     "observation records" % n_emit,
                assumptions=SORT_ASSUME, trusted=["rank projection of lane contents (sort + dedup)"])


def C02(tier):
    models = [
        dict(module="Select", name="MC_Select",
             cfg=dict(constants=dict(FIX, N=q(tier, 5, 6), NMin=1, OutOfRange=False, Emit=False),
                      invariants=["TypeOK", "BagInv", "SandwichInv", "WantInv", "DoneOK", "PanicIffOutOfRange"],
                      properties=["Terminates", "RefinesProof"], view="view")),
        # every array length, position and pivot sequence: the invariant of SelectAlg (the wanted position stays inside the
        # window, never "panic", sandwich invariant, arrangement clause at return) is proved inductive by TLAPS from the
        # partition contract (itself proved in PartitionProof); MC_Select checks that Select refines SelectAlg
        dict(engine="tlaps", module="SelectProof", name="TLAPS_SelectProof", deps=["SelectAlg"]),
        dict(engine="tlaps", module="PartitionProof", name="TLAPS_PartitionProof", deps=["PartitionAlg"]),
        dict(module="Bulk", name="MC_Bulk",
             cfg=dict(constants=dict(FIX, N=q(tier, 4, 5), NMin=1, MaxReq=q(tier, 3, 3), OutOfRange=False, DebugAssertions=True, Emit=False),
                      invariants=["BagInv", "FrameInv", "DoneOK", "PanicIffOutOfRange"], properties=["Terminates", "RefinesProof"], view="view")),
        # every length, request set and pivot sequence: pending windows disjoint and sandwiched, every wanted position pending or
        # settled, no panic, all settled at return (TLAPS on BulkAlg, 289 obligations); MC_Bulk checks the refinement
        dict(engine="tlaps", module="BulkProof", name="TLAPS_BulkProof", deps=["BulkAlg"]),
        dict(module="Select", name="MC_Select_emit", emit=True,
             cfg=dict(constants=dict(FIX, N=q(tier, 4, 5), NMin=1, OutOfRange=False, Emit=True),
                      invariants=["DoneOK", "EmitInv"])),
        dict(module="Bulk", name="MC_Bulk_emit", emit=True,
             cfg=dict(constants=dict(FIX, N=q(tier, 3, 4), NMin=1, MaxReq=q(tier, 2, 3), OutOfRange=False, DebugAssertions=True, Emit=True),
                      invariants=["DoneOK", "EmitInv"])),
        # quickselect over the fine-grained partition with symbolic integer contents and symbolic pivots (Apalache)
        dict(engine="apalache", module="SelectSym", name="AP_SelectSym", maxn=q(tier, 3, 4), length=q(tier, 26, 40)),
    ]
    stages = [
        dict(name="replay_dev", family="sort", trace="Trace_Sort", trace_constants=FIX, profile="dev",
             cases_from=["MC_Select_emit", "MC_Bulk_emit"], params={"strides": "1/-3" if tier == "quick" else "1/2/-1/-3"}),
        dict(name="random_dev", family="sort", trace="Trace_Sort", trace_constants=FIX, profile="dev", chunk=3000,
             gen=dict(count=(4000, 24000), params={"kinds": "select/bulk", "oor_den": "0"})),
        # lanes beyond the usual small-array thresholds of sorting code (120..200 elements)
        dict(name="long_lanes", family="sort", trace="Trace_Sort", trace_constants=FIX, profile="dev", chunk=40,
             gen=dict(count=(240, 2400), params={"kinds": "select/bulk", "oor_den": "0", "long": "1", "bigstride": "0"}), params={"frame": "1"}),
        # runs of 70..260 equal values: recursion as deep as the run is long whatever the pivots are
        dict(name="deep_recursion", family="sort", trace="Trace_Sort", trace_constants=FIX, profile="dev", chunk=40,
             gen=dict(count=(200, 2000), params={"kinds": "select/bulk", "oor_den": "0", "deep": "1"})),
        # lanes of 300..700 elements with 6..16 requests: positions, ranks and index shifts beyond one byte (seeded change C02_Q)
        dict(name="very_long_lanes", family="sort", trace="Trace_Sort", trace_constants=FIX, profile="dev", chunk=20,
             gen=dict(count=(80, 600), params={"kinds": "select/bulk/bulk", "oor_den": "0", "long": "3", "bigstride": "0"})),
    ]
    return dict(models=models, stages=stages, nontrivial=sort_nontrivial, exhaustive=True,
                rule="every complete behaviour (pattern, index or request list, pivot sequence) of MC_Select_emit / MC_Bulk_emit "
                     "replayed through the scripted pivot hook, plus randomized lanes (<= 40 / 64 elements, request lists <= 8 / 32) with real "
                     "RNG pivots and first/last/middle/scripted pivot policies; non-trivial = lane of >= 2 elements",
                assumptions=SORT_ASSUME, trusted=["rank projection of lane contents (sort + dedup)", "the pivot hook (cfg ndarray_stats_verif)"])


def C16(tier):
    inv_p = ["TypeOK", "BagInv", "CursorInv", "PanicIffOutOfRange"]
    models = [
        dict(module="Partition", name="MC_Partition_oor",
             cfg=dict(constants=dict(FIX, N=q(tier, 5, 6), NMin=0, OutOfRange=True, Emit=False), invariants=inv_p, properties=["Terminates", "RefinesProof"])),
        dict(module="Select", name="MC_Select_oor",
             cfg=dict(constants=dict(FIX, N=q(tier, 5, 6), NMin=0, OutOfRange=True, Emit=False),
                      invariants=["TypeOK", "BagInv", "PanicIffOutOfRange"], properties=["Terminates", "RefinesProof"], view="view")),
        # every length: in-range positions never panic, out-of-range ones are rejected at once and nothing is returned or
        # rearranged (TLAPS on PartitionAlg / SelectAlg); the two models above check the refinement, out-of-range positions included
        dict(engine="tlaps", module="PartitionProof", name="TLAPS_PartitionProof", deps=["PartitionAlg"]),
        dict(engine="tlaps", module="SelectProof", name="TLAPS_SelectProof", deps=["SelectAlg"]),
    ]
    for dbg in (True, False):
        models.append(dict(module="Bulk", name="MC_Bulk_oor_dbg%d" % dbg,
                           cfg=dict(constants=dict(FIX, N=q(tier, 3, 4), NMin=0, MaxReq=3, OutOfRange=True, DebugAssertions=dbg, Emit=False),
                                    invariants=["BagInv", "PanicIffOutOfRange"], properties=["Terminates"], view="view")))
    models += [
        dict(module="Partition", name="MC_Partition_oor_emit", emit=True,
             cfg=dict(constants=dict(FIX, N=q(tier, 4, 5), NMin=0, OutOfRange=True, Emit=True), invariants=["PanicIffOutOfRange", "EmitInv"])),
        dict(module="Select", name="MC_Select_oor_emit", emit=True,
             cfg=dict(constants=dict(FIX, N=q(tier, 4, 5), NMin=0, OutOfRange=True, Emit=True), invariants=["PanicIffOutOfRange", "EmitInv"])),
        dict(module="Bulk", name="MC_Bulk_oor_emit", emit=True,
             cfg=dict(constants=dict(FIX, N=q(tier, 3, 3), NMin=0, MaxReq=q(tier, 2, 3), OutOfRange=True, DebugAssertions=True, Emit=True),
                      invariants=["PanicIffOutOfRange", "EmitInv"])),
    ]
    emits = ["MC_Partition_oor_emit", "MC_Select_oor_emit", "MC_Bulk_oor_emit"]
    stages = [
        dict(name="replay_dev", family="sort", trace="Trace_Sort", trace_constants=FIX, profile="dev", cases_from=emits,
             params={"strides": "1"}),
        dict(name="replay_release", family="sort", trace="Trace_Sort", trace_constants=FIX, profile="release", cases_from=emits,
             params={"strides": "1"}),
        dict(name="replay_debug_assertions_only", family="sort", trace="Trace_Sort", trace_constants=FIX, profile="relda", cases_from=emits,
             params={"strides": "1"}),
        dict(name="replay_overflow_checks_only", family="sort", trace="Trace_Sort", trace_constants=FIX, profile="reloc", cases_from=emits,
             params={"strides": "1"}),
        dict(name="random_dev", family="sort", trace="Trace_Sort", trace_constants=FIX, profile="dev", chunk=3000,
             gen=dict(count=(2000, 12000), params={"oor_den": "2"})),
        dict(name="random_release", family="sort", trace="Trace_Sort", trace_constants=FIX, profile="release", chunk=3000,
             gen=dict(count=(2000, 12000), params={"oor_den": "2"})),
        hist_stage("lookup_dev", gen=dict(count=(1200, 12000), params={"kinds": "index"})),
        hist_stage("lookup_release", profile="release", gen=dict(count=(1200, 12000), params={"kinds": "index"})),
    ]
    return dict(models=models, stages=stages, nontrivial=lambda o: True, exhaustive=True,
                rule="every behaviour of the *_oor_emit models (lengths 0..N, positions 0..n+1 and usize::MAX, request lists mixing "
                     "in- and out-of-range entries, every pivot sequence) replayed in dev (debug assertions + overflow checks) and "
                     "release (neither) builds; randomized longer lanes with half the requests out of range; Bins::index / Grid::index "
                     "with in- and out-of-range bin indexes and arities",
                assumptions=SORT_ASSUME + ["build profiles: dev = debug-assertions + overflow-checks, release = neither, relda / reloc = release code generation with only debug assertions / only overflow checks"],
                trusted=["catch_unwind outcome classification (a worker abort or timeout is reported as its own outcome and is never accepted)"])


FIX3 = dict(FixF3=True)

NAN_ASSUME = [
    "is_nan / is_none of the element types are lawful; behaviour of the compaction depends only on the missing/non-missing pattern",
    "the harness reads results back through the parent buffer (original element type), never through the NotNan-typed view",
]


def C04(tier):
    models = [
        dict(module="RemoveNan", name="MC_RemoveNan",
             cfg=dict(constants=dict(FIX3, MaxLen=q(tier, 6, 8), MaxStride=3, Offsets="{0, 2}", Kinds='{"float", "option"}', Emit=False),
                      invariants=["CursorInv", "LoopInv", "FrameInv", "DoneOK", "TwinOK", "IdempotentOK"], properties=["Terminates", "RefinesProof"])),
        # every lane length: the invariant of RemoveNanAlg (cursor safety, loop invariant, the returned prefix is exactly the
        # non-missing part) is proved inductive by TLAPS; MC_RemoveNan checks that RemoveNan refines RemoveNanAlg
        dict(engine="tlaps", module="RemoveNanProof", name="TLAPS_RemoveNanProof", deps=["RemoveNanAlg"]),
        dict(module="RemoveNan", name="MC_RemoveNan_emit", emit=True,
             cfg=dict(constants=dict(FIX3, MaxLen=q(tier, 5, 7), MaxStride=3, Offsets="{0, 2}", Kinds='{"float"}', Emit=True),
                      invariants=["DoneOK", "EmitInv"])),
    ]
    stages = [
        dict(name="replay_all_types", family="nan", trace="Trace_Nan", trace_constants=FIX3, profile="dev",
             cases_from=["MC_RemoveNan_emit"], params={"types": "all" if tier == "thorough" else "f32/f64/opt_u8/opt_i32/opt_i128/opt_n64"}),
        dict(name="random_nd", family="nan", trace="Trace_Nan", trace_constants=FIX3, profile="dev",
             gen=dict(count=(3000, 30000))),
        dict(name="random_release", family="nan", trace="Trace_Nan", trace_constants=FIX3, profile="release",
             gen=dict(count=(1500, 10000))),
    ]
    return dict(models=models, stages=stages, nontrivial=lambda o: o.get("vin", {}).get("len", 2) >= 2, exhaustive=True,
                rule="every missing/non-missing pattern of length 0..N x strides -3..3 x offsets {0,2} emitted by TLC, replayed for the element "
                     "types (all 14 in the thorough tier); randomized lanes to 30 elements with strides to +-4 and lanes of 1..3-D arrays in C/F "
                     "order, sliced/stepped/reversed/permuted views, along every axis, via map_axis_skipnan_mut; non-trivial = lane of >= 2 elements",
                assumptions=NAN_ASSUME, trusted=["address projection: (as_ptr - parent base) / size_of, len, stride of the returned view"])


QUANT_ASSUME = [
    "values are logged as exact small integers relative to a base (2^k offset projection); Linear/Midpoint are judged within one "
    "unit (integers) or one quantum of 2^-10 (N64) of the exact rational value",
    "the position (N-1)q is evaluated exactly from the f64 q by integer arithmetic; where an integer or half-integer lies within the "
    "rounding error of the documented f64 product both readings are accepted",
]


def quantile_models(tier, emit_types=True):
    base = dict(W=4, Signed=True, MaxLen=3, ValueMode='"spaced"', Dens="{1, 2, 3, 4}", MaxReq=q(tier, 1, 2),
                Strats='{"lower", "higher", "nearest", "midpoint", "linear"}', AllowF6=True, Emit=False)
    inv = ["SearchedOK", "OutcomeOK", "ValuesOK", "BulkEqSingle"]
    ms = [
        dict(module="Quantile", name="MC_Quantile_signed", cfg=dict(constants=dict(base), invariants=inv, properties=["Terminates"])),
        dict(module="Quantile", name="MC_Quantile_unsigned", cfg=dict(constants=dict(base, Signed=False), invariants=inv, properties=["Terminates"])),
        dict(module="Quantile", name="MC_Quantile_full4bit",
             cfg=dict(constants=dict(base, ValueMode='"full"', MaxLen=2, MaxReq=1, Dens="{1, 2, 3, 4, 5, 8}"), invariants=inv)),
        dict(module="Quantile", name="MC_Quantile_emit", emit=True,
             cfg=dict(constants=dict(base, MaxLen=q(tier, 3, 4), MaxReq=1, Dens="{1, 2, 3, 4, 8}", Emit=True), invariants=["ValuesOK", "EmitInv"])),
    ]
    return ms


def quant_nontrivial(o):
    if o.get("ev") == "qlaws":
        return o.get("n", 0) >= 2
    return any(len(l) >= 2 for l in o.get("lanes", []))


def C01(tier):
    stages = [
        dict(name="replay_model", family="quant", trace="Trace_Quant", profile="dev", cases_from=["MC_Quantile_emit"],
             params={"types": "i8/i64/n64/u8"}),
        dict(name="random_dev", family="quant", trace="Trace_Quant", profile="dev", gen=dict(count=(4000, 40000))),
        dict(name="random_release", family="quant", trace="Trace_Quant", profile="release", gen=dict(count=(1500, 15000))),
        # lanes with a run of 70..260 equal values (recursion as deep as the run) and requests around the end of the run
        dict(name="deep_recursion", family="quant", trace="Trace_Quant", profile="dev", chunk=100,
             gen=dict(count=(300, 3000), params={"deep": "1"})),
    ]
    return dict(models=quantile_models(tier), stages=stages, nontrivial=quant_nontrivial, exhaustive=True,
                rule="every (lane over the spaced 4-bit value set, request, strategy) behaviour of MC_Quantile_emit replayed on i8 (as is and "
                     "scaled by 16, reversed stepped view), u8, i64, N64; randomized 1..3-D views (C/F, sliced, stepped, reversed, permuted), every "
                     "axis, i8/u8 over their full range, i32/i64/u64 with 2^k offsets, N64 grids, q = a/b with 0, +-1, +-4, +-2^20, +-2^30 ulp offsets "
                     "aimed at integral and half-integral positions, all five strategies, single/bulk and 1-D/axis APIs, scripted and policy pivots; "
                     "non-trivial = some lane has >= 2 elements",
                assumptions=QUANT_ASSUME, trusted=["exact position projection qinfo() (u128 integer arithmetic on the bits of q)"])


def C18(tier):
    stages = [
        dict(name="pairs_model", family="quant", trace="Trace_Quant", profile="dev", cases_from=["MC_Quantile_emit"],
             params={"types": "i8/i64/n64", "pair": "1"}),
        dict(name="pairs_random", family="quant", trace="Trace_Quant", profile="dev",
             gen=dict(count=(2500, 25000), params={"pair": "1"})),
        dict(name="select_pairs", family="sort", trace="Trace_Sort", trace_constants=FIX, profile="dev", chunk=3000,
             gen=dict(count=(2500, 15000), params={"kinds": "bulkpair", "oor_den": "0"})),
        # long runs of equal values: the bulk recursion goes as deep as the run is long whatever the pivots are
        dict(name="select_pairs_deep", family="sort", trace="Trace_Sort", trace_constants=FIX, profile="dev", chunk=100,
             gen=dict(count=(300, 3000), params={"kinds": "bulkpair", "oor_den": "0", "deep": "1", "reps": "0"})),
        dict(name="quantile_pairs_deep", family="quant", trace="Trace_Quant", profile="dev", chunk=100,
             gen=dict(count=(300, 3000), params={"pair": "1", "deep": "1"})),
        num_stage("moments_and_axis_forms", "c06/c07", (3000, 30000)),
        num_stage("moments_overflowing_sums", "c18big", (300, 3000)),
        num_stage("moments_non_dyadic_offsets", "mompair", (1500, 10000)),
        num_stage("axis_forms_unusual_weights", "c18w", (1500, 10000)),
        num_stage("axis_forms_vs_lanes", "axpair", (1500, 10000)),
    ]
    return dict(models=[quantile_models(tier)[k] for k in (0, 1, 3)] + [
                    dict(module="Bulk", name="MC_Bulk_vs_single",
                         cfg=dict(constants=dict(FIX, N=q(tier, 4, 5), NMin=1, MaxReq=2, OutOfRange=False, DebugAssertions=True, Emit=False),
                                  invariants=["DoneOK"], view="view"))],
                stages=stages, nontrivial=quant_nontrivial, exhaustive=False,
                rule="paired calls on clones of the same input: quantiles_axis_mut / quantiles_mut vs quantile_axis_mut / quantile_mut for each q "
                     "(request lists up to 12 long with repeats, every strategy/axis/layout), get_many_from_sorted_mut vs get_from_sorted_mut for "
                     "each index; non-trivial = some lane has >= 2 elements",
                assumptions=QUANT_ASSUME, trusted=[])


def C19(tier):
    stages = [
        dict(name="laws_random", family="quant", trace="Trace_Quant", profile="dev",
             gen=dict(count=(2500, 25000), params={"kinds": "qlaws"})),
        dict(name="laws_on_nd_lanes", family="quant", trace="Trace_Quant", profile="dev",
             gen=dict(count=(1500, 10000), params={"kinds": "ndlaws"})),
        dict(name="laws_deep_recursion", family="quant", trace="Trace_Quant", profile="dev", chunk=50,
             gen=dict(count=(200, 2000), params={"kinds": "qlaws", "deep": "1"})),
    ]
    return dict(models=quantile_models(tier)[:3], stages=stages, nontrivial=quant_nontrivial, exhaustive=False,
                rule="groups of calls on one lane: all five strategies x an ascending q grid (every k/(N-1) and every half-way point with "
                     "0, +-1, +-4, +-2^20 ulp offsets, plus random a/b), on the lane, on a random permutation and on a strictly increasing "
                     "relabelling; relations checked in doubled-rank space, no value oracle; non-trivial = lane of >= 2 elements",
                assumptions=QUANT_ASSUME[1:], trusted=["doubled-rank projection"])


def C03(tier):
    stages = [
        dict(name="sort_frame", family="sort", trace="Trace_Sort", trace_constants=FIX, profile="dev", chunk=3000,
             gen=dict(count=(3000, 18000), params={"oor_den": "6", "bigstride": "0"}), params={"frame": "1"}),
        dict(name="sort_frame_model", family="sort", trace="Trace_Sort", trace_constants=FIX, profile="dev",
             cases_from=["MC_Select_emit", "MC_Partition_emit"], params={"frame": "1", "strides": "2/-3"}),
        # badq: one call in six carries a request outside [0, 1] (rejected calls are framed like any other)
        dict(name="quantile_frame", family="quant", trace="Trace_Quant", profile="dev", gen=dict(count=(2500, 25000), params={"badq": "1"})),
        dict(name="nan_frame", family="nan", trace="Trace_Nan", trace_constants=FIX3, profile="dev", gen=dict(count=(2500, 25000))),
        dict(name="qskip_frame", family="minmax", trace="Trace_MinMax", profile="dev", gen=dict(count=(2000, 20000), params={"kinds": "qskip"})),
        # an element whose comparisons panic: the lane after the unwinding still holds every element exactly once
        dict(name="sort_panicking_comparisons", family="sort", trace="Trace_Sort", trace_constants=FIX, profile="dev", chunk=3000,
             gen=dict(count=(1500, 10000), params={"kinds": "poison", "oor_den": "0"})),
        dict(name="sort_frame_long_lanes", family="sort", trace="Trace_Sort", trace_constants=FIX, profile="dev", chunk=40,
             gen=dict(count=(240, 2400), params={"oor_den": "0", "long": "1", "bigstride": "0"}), params={"frame": "1"}),
        # a run of 70..260 equal values among a few others: the recursion goes as deep as the run whatever the pivots are, on a window
        # that still holds different values (a depth-limited fallback has to put back exactly what it took)
        dict(name="sort_frame_deep_ties", family="sort", trace="Trace_Sort", trace_constants=FIX, profile="dev", chunk=40,
             gen=dict(count=(150, 1500), params={"kinds": "select/bulk", "oor_den": "0", "deep": "1", "bigstride": "0"}), params={"frame": "1"}),
    ]
    models = [
        dict(module="Partition", name="MC_Partition",
             cfg=dict(constants=dict(FIX, N=q(tier, 5, 6), NMin=0, OutOfRange=True, Emit=False), invariants=["BagInv", "CursorInv"], properties=["RefinesProof"])),
        dict(module="RemoveNan", name="MC_RemoveNan",
             cfg=dict(constants=dict(FIX3, MaxLen=q(tier, 5, 7), MaxStride=3, Offsets="{0, 2}", Kinds='{"float", "option"}', Emit=False),
                      invariants=["CursorInv", "FrameInv"], properties=["RefinesProof"])),
        # every length: through a ghost permutation the array / lane is at all times a rearrangement of the original one (each cell
        # holds the element of a distinct original cell) - proved with TLAPS on PartitionAlg / RemoveNanAlg; the two models above
        # carry the same ghost and check the refinement
        dict(engine="tlaps", module="PartitionProof", name="TLAPS_PartitionProof", deps=["PartitionAlg"]),
        dict(engine="tlaps", module="RemoveNanProof", name="TLAPS_RemoveNanProof", deps=["RemoveNanAlg"]),
        dict(module="Select", name="MC_Select_emit", emit=True,
             cfg=dict(constants=dict(FIX, N=q(tier, 4, 5), NMin=1, OutOfRange=False, Emit=True), invariants=["BagInv", "EmitInv"])),
        dict(module="Partition", name="MC_Partition_emit", emit=True,
             cfg=dict(constants=dict(FIX, N=q(tier, 4, 5), NMin=1, OutOfRange=False, Emit=True), invariants=["BagInv", "EmitInv"])),
    ]
    return dict(models=models, stages=stages, nontrivial=lambda o: True, exhaustive=False,
                rule="parent buffer recorded before and after every mutating routine (partition, single and bulk selection incl. panicking "
                     "out-of-range calls, all quantile APIs, remove_nan_mut and map_axis_skipnan_mut) on views with offset, step, reversal and "
                     "permuted axes; TLC checks per-lane multiset preservation and that every cell outside the view is unchanged",
                assumptions=SORT_ASSUME[:1] + NAN_ASSUME[:1], trusted=["address projection of views ((as_ptr - base)/size, shape, strides as reported by ndarray)"])


def minmax_models(tier):
    return [
        dict(module="MinMax", name="MC_MinMax",
             cfg=dict(constants=dict(MaxLen=q(tier, 5, 6), MaxRank=3, Emit=False), invariants=["ScanInv", "SkipScanInv", "DoneOK"], properties=["Terminates", "RefinesProof"])),
        # every length and content: "ok iff non-empty and NaN-free / some element kept", "UndefinedOrder iff a NaN is present", the
        # designated element is the first extremum - proved with TLAPS on MinMaxAlg; MC_MinMax checks the refinement
        dict(engine="tlaps", module="MinMaxProof", name="TLAPS_MinMaxProof", deps=["MinMaxAlg"]),
        dict(module="MinMax", name="MC_MinMax_emit", emit=True,
             cfg=dict(constants=dict(MaxLen=q(tier, 5, 5), MaxRank=3, Emit=True), invariants=["DoneOK", "EmitInv"])),
    ]


MM_ASSUME = ["PartialOrd / is_nan of the element types are lawful; values enter the specification through the rank projection "
             "(NaN/None = 0, -0.0 and 0.0 share a rank, infinities are the extreme ranks)"]


def C05(tier):
    stages = [
        dict(name="replay_model", family="minmax", trace="Trace_MinMax", profile="dev", cases_from=["MC_MinMax_emit"],
             params={"types": "i32/f32/f64"}),
        dict(name="random", family="minmax", trace="Trace_MinMax", profile="dev",
             gen=dict(count=(3000, 30000), params={"kinds": "minmax"})),
    ]
    return dict(models=minmax_models(tier), stages=stages, nontrivial=lambda o: len(o.get("r", [])) >= 2, exhaustive=True,
                rule="every sequence of length 0..N over ranks {NaN,1,2,3} emitted by TLC, laid out as every factorisation of its length into "
                     "<= 3 axes (plus 0-D, 4-D and zero-length-axis shapes), C/F order and one sliced/reversed/permuted view, for i32/f32/f64; "
                     "randomized arrays to 4-D with NaN first/last/everywhere; non-trivial = >= 2 elements",
                assumptions=MM_ASSUME, trusted=["rank projection"])


def C14(tier):
    stages = [
        dict(name="replay_model", family="minmax", trace="Trace_MinMax", profile="dev", cases_from=["MC_MinMax_emit"],
             params={"types": "f32/f64/opt_i32/opt_u8"}),
        dict(name="random", family="minmax", trace="Trace_MinMax", profile="dev", gen=dict(count=(4000, 40000))),
        dict(name="lane_maps", family="nan", trace="Trace_Nan", trace_constants=FIX3, profile="dev",
             gen=dict(count=(1500, 15000), params={"kinds": "remove_nan_nd"})),
        dict(name="notnone_surface", family="misc", trace="Trace_Misc", profile="dev", gen=dict(count=(600, 6000))),
    ]
    return dict(models=minmax_models(tier) + [
                    dict(module="RemoveNan", name="MC_RemoveNan",
                         cfg=dict(constants=dict(FIX3, MaxLen=q(tier, 5, 6), MaxStride=2, Offsets="{0, 1}", Kinds='{"float", "option"}', Emit=False),
                                  invariants=["DoneOK", "TwinOK"]))],
                stages=stages, nontrivial=lambda o: len(o.get("r", o.get("lanes", [0, 0]))) >= 2, exhaustive=True,
                rule="the C05 cases with missing values for f32/f64/Option<i32>/Option<u8>: min/max/argmin/argmax_skipnan, fold_skipnan, "
                     "indexed_fold_skipnan, visit_skipnan, fold_axis_skipnan on every axis (recording closures); quantile_axis_skipnan_mut on "
                     "1..3-D views (none/all/some missing per lane, every strategy, scripted pivots); map_axis_skipnan_mut lanes via the nan family",
                assumptions=MM_ASSUME + QUANT_ASSUME, trusted=["rank projection", "recording closures passed to the folds"])


HC = dict(NAxes=1, Dom=1, MaxEdges=1, Depth=1, Emit=False)


def hist_stage(name, **kw):
    d = dict(name=name, family="hist", trace="Trace_Hist", trace_spec="TSpec", trace_constants=HC, profile="dev", chunk=40000)
    d.update(kw)
    return d


def hist_models(tier, emit=True):
    inv = ["HistOK", "LookupAgree"]
    ms = [
        dict(module="Histogram", name="MC_Hist_1axis",
             cfg=dict(constants=dict(NAxes=1, Dom=5, MaxEdges=5, Depth=q(tier, 4, 5), Emit=False), invariants=inv, properties=["RejectedNoChange", "RefinesProof"])),
        dict(module="Histogram", name="MC_Hist_2axes",
             cfg=dict(constants=dict(NAxes=2, Dom=3, MaxEdges=3, Depth=q(tier, 2, 3), Emit=False), invariants=inv, properties=["RejectedNoChange", "RefinesProof"])),
        # every grid size and every history: each count = number of observations of the history in that cell (TLAPS on HistAlg);
        # the two models above (no VIEW: every history is a state) check the refinement
        dict(engine="tlaps", module="HistProof", name="TLAPS_HistProof", deps=["HistAlg"]),
        dict(module="Histogram", name="MC_Hist_3axes",
             cfg=dict(constants=dict(NAxes=3, Dom=2, MaxEdges=2, Depth=q(tier, 2, 3), Emit=False), invariants=inv, properties=["RejectedNoChange"],
                      view="view")),
    ]
    if emit:
        ms += [
            dict(module="Histogram", name="MC_Hist_emit1", emit=True,
                 cfg=dict(constants=dict(NAxes=1, Dom=4, MaxEdges=4, Depth=3, Emit=True), invariants=["HistOK", "EmitInv"])),
            dict(module="Histogram", name="MC_Hist_emit2", emit=True,
                 cfg=dict(constants=dict(NAxes=2, Dom=3, MaxEdges=2, Depth=2, Emit=True), invariants=["HistOK", "EmitInv"])),
        ]
    return ms


HIST_ASSUME = ["Ord of the element type is lawful; edge values and observations are small integers mapped monotonically to i32/u8/i64/N64 "
               "(comparison-only code: behaviour depends only on the order pattern)"]


def C11(tier):
    stages = [
        hist_stage("replay_model", cases_from=["MC_Hist_emit1", "MC_Hist_emit2"]),
        hist_stage("random", gen=dict(count=(700, 5000), params={"kinds": "hist/hist_matrix"})),
    ]
    return dict(models=hist_models(tier), stages=stages, nontrivial=lambda o: o.get("ev") in ("hist_add", "hist_matrix"), exhaustive=True,
                rule="every history (sequence of inserts over below/on-edge/between/above probe points) of depth 3 (1 axis, every edge subset of a "
                     "4-value domain) and depth 2 (2 axes) emitted by TLC, replayed step by step on real Histogram<i32> and Histogram<N64> objects and "
                     "through the matrix form (row- and column-major); random histories of up to 200 inserts on 1..3 axes incl. zero-bin axes and "
                     "sliced/transposed observation matrices; each hist_add step is validated against the specification state; non-trivial = an insert "
                     "or matrix event",
                assumptions=HIST_ASSUME, trusted=[])


def C13(tier):
    models = [
        dict(module="Lookup", name="MC_Lookup",
             cfg=dict(constants=dict(MaxLen=q(tier, 5, 6), Dom=q(tier, 5, 5), Emit=False), invariants=["EdgesOK", "LookupOK", "AccessorsOK", "ContractOK", "MatchOK"])),
        # every length: the five-way match on the binary-search outcome is the left-closed right-open lookup (TLAPS, from the
        # contract of slice::binary_search); MC_Lookup checks that the model's search outcome satisfies that contract
        dict(engine="tlaps", module="LookupProof", name="TLAPS_LookupProof", deps=["LookupAlg"]),
        dict(module="Lookup", name="MC_Lookup_emit", emit=True,
             cfg=dict(constants=dict(MaxLen=q(tier, 5, 6), Dom=5, Emit=True), invariants=["EdgesOK", "EmitInv"])),
    ]
    stages = [
        hist_stage("replay_model", cases_from=["MC_Lookup_emit"]),
        hist_stage("random", gen=dict(count=(3000, 20000), params={"kinds": "edges/grid"})),
    ]
    return dict(models=models, stages=stages, nontrivial=lambda o: len(o.get("input", o.get("axes", []))) >= 1, exhaustive=True,
                rule="every edge sequence (duplicates and every input order included) of length <= N over a D-value domain emitted by TLC, probed "
                     "below/on/between/above, for i32/u8/N64 from Vec and from (possibly sliced) owned Array1; random larger edge sets and grids of "
                     "0..3 axes with every index tuple",
                assumptions=HIST_ASSUME, trusted=[])


def C12(tier):
    models = [
        dict(module="EquiSpaced", name="MC_EquiSpaced_int",
             cfg=dict(constants=dict(MaxVal=q(tier, 24, 40), Float=False, P=3, EMin=0, EMax=0, FixF4=True), invariants=["SafetyInv", "DoneOK"], properties=["Terminates", "RefinesProof"])),
        # all integers min < max, width > 0: the count loop's invariant, "last edge above the maximum by at most one width", and
        # coverage of [min, max] by the n bins are proved with TLAPS; MC_EquiSpaced_int checks the refinement
        dict(engine="tlaps", module="EquiSpacedProof", name="TLAPS_EquiSpacedProof", deps=["EquiSpacedAlg"]),
        dict(module="EquiSpaced", name="MC_EquiSpaced_minifloat",
             cfg=dict(constants=dict(MaxVal=0, Float=True, P=q(tier, 3, 4), EMin=0, EMax=q(tier, 5, 6), FixF4=True), invariants=["SafetyInv", "DoneOK"], properties=["Terminates"])),
    ]
    stages = [
        hist_stage("strategies", gen=dict(count=(4000, 20000), params={"kinds": "strategy"}), timeout_ms=4000),
        hist_stage("gridbuilder", gen=dict(count=(1200, 8000), params={"kinds": "gridbuilder"}), timeout_ms=4000),
    ]
    return dict(models=models, stages=stages, nontrivial=lambda o: o.get("n", 0) >= 2, exhaustive=False,
                rule="random data sets (length 0..300, thorough: to 10^4) over i32/i64/u32 and N64 (quarters, 0.3+0.1k, 1e9+0.001k, 1e16+2k, thirds), "
                     "constant / heavy ties / regular / narrow / uniform, all five strategies, plus GridBuilder + histogram of the same column; "
                     "edges judged in doubled-rank space relative to the data; non-trivial = >= 2 observations",
                assumptions=["bin-count formulas (sqrt, cube root, log2) are not re-derived: the check is on the bins built, whatever their number"],
                trusted=["doubled-rank projection of the edges relative to the data values"])


def C17(tier):
    models = [
        dict(module="Errors", name="MC_Errors", cfg=dict(constants=dict(Emit=False), invariants=["ErrOK"])),
        dict(module="Errors", name="MC_Errors_emit", emit=True, cfg=dict(constants=dict(Emit=True), invariants=["ErrOK", "EmitInv"])),
    ]
    stages = [
        dict(name="table", family="err", trace="Trace_Err", trace_spec="TSpec", trace_constants=dict(Emit=False), profile="dev",
             cases_from=["MC_Errors_emit"]),
        dict(name="random_rows", family="err", trace="Trace_Err", trace_spec="TSpec", trace_constants=dict(Emit=False), profile="dev",
             gen=dict(count=(400, 4000))),
    ]
    return dict(models=models, stages=stages, nontrivial=lambda o: o.get("out") != "ok", exhaustive=True,
                rule="every row of the decision table enumerated by TLC (routine class x receiver shape incl. empty-by-a-zero-axis x argument shape: "
                     "same / same size different shape / different / empty x axis x weights length x validity pattern of up to 3 requested q) executed "
                     "by every routine of the class (40+ routines, f64 / i32 / i64 / N64 variants, C and F order, second operand in the other order); "
                     "random rows with ranks to 4; variant and payload (both shapes, index of the offending q) judged by TLC; non-trivial = error rows",
                assumptions=["the classification of routines into classes (module Errors, header comment) is part of the specification"],
                trusted=["mapping of error values to (variant, payload) records in the harness"])


NUM_ASSUME = [
    "inputs are exactly representable grid values (small integers / 4, plus a power-of-two offset); float results are compared with the exact "
    "rational value at a quantum of 2^-qe (qe = 6..16, chosen so the exact numerators fit TLC's 32-bit integers): algebraic mistakes, wrong "
    "normalisers, wrong pairing, catastrophic cancellation and overflow are caught, roundoff-level precision regressions are not",
]


def num_stage(name, kinds, counts, **kw):
    d = dict(name=name, family="num", trace="Trace_Num", profile="dev", gen=dict(count=counts, params={"kinds": kinds}))
    d.update(kw)
    return d


def summary_models(tier):
    return [
        dict(module="Summary", name="MC_Summary",
             cfg=dict(constants=dict(MaxN=q(tier, 3, 4), MaxR=q(tier, 2, 2), MaxP=q(tier, 4, 4), FixF5=True), invariants=["MomentAlgebraOK", "WestOK", "ShiftOK"])),
    ]


def C06(tier):
    return dict(models=summary_models(tier), stages=[num_stage("means", "c06", (3000, 30000)), num_stage("means_release", "c06", (1000, 8000), profile="release"),
                                                      num_stage("axis_forms_vs_lanes", "axpair", (1500, 10000))],
                nontrivial=lambda o: len(o.get("r", [])) >= 2, exhaustive=False,
                rule="mean, weighted_sum, weighted_mean (+ per-axis forms), harmonic_mean (integers 1..8), geometric_mean (powers of two over "
                     "+-300 binades); f64/f32 grid data with offsets to 2^30, i32/i64/u8 exact; data and weights in independently chosen layouts "
                     "(C/F/sliced/stepped/reversed/permuted), every axis; non-trivial = >= 2 elements",
                assumptions=NUM_ASSUME, trusted=["quantisation round(res * 2^qe) and base subtraction in the harness"])


def C07(tier):
    return dict(models=summary_models(tier), stages=[num_stage("moments", "c07", (4000, 40000)), num_stage("axis_forms_vs_lanes", "axpair", (1500, 10000))],
                nontrivial=lambda o: len(o.get("r", [])) >= 2, exhaustive=False,
                rule="weighted_var / weighted_std (+ per-axis) with integer weights incl. zeros, ddof in {0, 1/2, 1}, offsets to 2^20; central_moment(s) of "
                     "orders 0..8 on tiny integer data with offsets to 2^45 (orders <= 4); skewness and kurtosis in squared / cross-multiplied form; "
                     "order 0 exactly 1, order 1 exactly 0, variance >= -quantum",
                assumptions=NUM_ASSUME, trusted=["quantisation in the harness"])


def C08(tier):
    return dict(models=summary_models(tier)[:0] + [
                    dict(module="Summary", name="MC_Summary", cfg=dict(constants=dict(MaxN=3, MaxR=2, MaxP=2, FixF5=True), invariants=["ShiftOK"])),
                    # cov / pearson step by step (means, centring, product with the transpose, division) in exact arithmetic on every small
                    # integer matrix: definition, symmetry, Cauchy-Schwarz, affine invariance; its behaviours are replayed into the code
                    dict(module="Correlation", name="MC_Correlation",
                         cfg=dict(constants=dict(MaxV=2, MaxN=q(tier, 3, 4), R=q(tier, 2, 1), Emit=False), invariants=["DoneOK", "InvarianceOK"])),
                    dict(module="Correlation", name="MC_Correlation_emit", emit=True,
                         cfg=dict(constants=dict(MaxV=2, MaxN=q(tier, 3, 4), R=1, Emit=True), invariants=["DoneOK", "EmitInv"]))],
                stages=[dict(name="cov_model", family="num", trace="Trace_Num", profile="dev", cases_from=["MC_Correlation_emit"], chunk=20000),
                        num_stage("cov_pearson", "corr", (6000, 40000))],
                nontrivial=lambda o: len(o.get("rows", [])) >= 2, exhaustive=False,
                rule="every matrix of 1..2 non-constant variables x 2..3 (thorough: 4) observations over {-1, 0, 1} with every ddof in {0, 1/2, .., n - 1/2} "
                     "(behaviours of MC_Correlation_emit, f64 and f32, covariance exact at 2^-16 / 2^-12); random: "
                     "1..4 variables x 2..5 observations of small integers (offsets to 2^20), 7..64 observations at the finest resolution that fits, "
                     "ddof in {0, 1/2, 1} or any half-integer below n, f32/f64, C/F/sliced/transposed inputs; "
                     "cov against the exact rational, symmetry, diagonal; pearson by r^2 var_i var_j = cov_ij^2 with sign, diagonal 1, range; "
                     "invariance under scaling a variable by 2^s (|s| to 400) plus a shift, sign flip under negation",
                assumptions=NUM_ASSUME, trusted=["quantisation in the harness"])


def C09(tier):
    return dict(models=[dict(module="Deviation", name="MC_Deviation", cfg=dict(constants=dict(MaxN=q(tier, 3, 4), MaxV=2), invariants=["LawsOK"]))],
                stages=[num_stage("deviation", "dev", (6000, 40000))],
                nontrivial=lambda o: len(o.get("a", [])) >= 2, exhaustive=False,
                rule="pairs of same-shaped arrays (1..3-D) in independently chosen layouts, i32/i64/BigInt exact and f32/f64 on the quarter grid (exact "
                     "after scaling); all ten measures, with swapped and with identical arguments",
                assumptions=NUM_ASSUME[:1], trusted=["quantisation in the harness"])


def C10(tier):
    return dict(models=[dict(module="Entropy", name="MC_Entropy", cfg=dict(constants=dict(MaxN=q(tier, 3, 3), M=2), invariants=["GibbsOK", "ZeroTermOK"]))],
                stages=[num_stage("entropy", "ent", (6000, 40000))],
                nontrivial=lambda o: len(o.get("a", [])) >= 2, exhaustive=False,
                rule="dyadic distributions a/2^m (<= 6 cells, normalised or not) with zeros in p and/or q, NaN at any position of p or q (incl. under a "
                     "zero of p), negative q, f32/f64, 1..3-D shapes, p and q in different layouts; values against a 2^-20 table of ln k, identities, "
                     "NaN / infinity exactness",
                assumptions=["ln is judged through a table of round(ln k * 2^20), k <= 32, at a tolerance of (n+2) * 2^-18"], trusted=["quantisation in the harness"])


def C20(tier):
    models = [
        dict(module="LayoutModel", name="MC_Layout",
             cfg=dict(constants=dict(MaxDim=2, MaxExt=q(tier, 3, 3), MaxStep=q(tier, 2, 3), Emit=False), invariants=["InParent", "NoAlias", "LanesPartition", "ShapeOK"])),
    ] + ([] if tier == "quick" else [
        dict(module="LayoutModel", name="MC_Layout_3d",
             cfg=dict(constants=dict(MaxDim=3, MaxExt=2, MaxStep=2, Emit=False), invariants=["InParent", "NoAlias", "LanesPartition", "ShapeOK"])),
    ]) + [
        dict(module="LayoutModel", name="MC_Layout_emit", emit=True,
             cfg=dict(constants=dict(MaxDim=2, MaxExt=q(tier, 2, 3), MaxStep=q(tier, 2, 2), Emit=True), invariants=["NoAlias", "EmitInv"])),
    ]
    stages = [
        dict(name="model_layouts", family="layout", trace="Trace_Layout", profile="dev", cases_from=["MC_Layout_emit"], chunk=20000),
        dict(name="random_layouts", family="layout", trace="Trace_Layout", profile="dev", gen=dict(count=(150, 1500)), chunk=20000),
    ]
    return dict(models=models, stages=stages, nontrivial=lambda o: o.get("ev") == "layout" and len(o.get("r", [])) >= 2, exhaustive=True,
                rule="every layout descriptor TLC enumerates (1..2-D parents up to 3x3, C/F order, every slice with step to +-2, every axis permutation) "
                     "and random 1..3-D (thorough: 4-D) ones; for each, 52 public routines are evaluated on seven representations of the same logical "
                     "array (C owned dyn, F owned static, the given layout as view / owned-in-place / mutable view, another random layout as ArcArray "
                     "and as CowArray with static dimension); second operands and weights get the same treatment; one event per (array, routine); "
                     "non-trivial = arrays with >= 2 elements",
                assumptions=NUM_ASSUME[:1] + ["grid data make every partial sum exact, so float results are expected to agree to the quantum whatever the summation order"],
                trusted=["quantisation of float results at 2^-20", "ndarray's slicing / permutation / ownership conversions used to build the representations"])


PLANS = {"C20": C20, "C06": C06, "C07": C07, "C08": C08, "C09": C09, "C10": C10, "C17": C17, "C11": C11, "C13": C13, "C12": C12, "C05": C05, "C14": C14, "C15": C15, "C02": C02, "C16": C16, "C04": C04, "C01": C01, "C18": C18, "C19": C19, "C03": C03}

HOOK_COMMITS = ["6df096f"]

TECH = "explicit TLA+ specification model-checked with TLC + replay of TLC-generated behaviours into the real code + TLC trace validation of the recorded observations"


NOT_CLAIMED = {}

SORT_NOTE = ("Trusted: TLC and its Json module; the rank projection (sort + dedup of the lane's values) done by the harness; lawful Ord; "
             "monomorphisation (i64 lanes stand for every Ord + Clone type). Exhaustive only up to the stated lane length; "
             "longer lanes are sampled. ")

META = {
    "C15": dict(
        text="The fine-grained TLA+ state machine of partition_mut (one action per loop body) is model-checked for every weak-order "
             "pattern up to length 6/7 and every pivot position: cursor safety and bag preservation in every state, the post-condition "
             "at return, panic iff out-of-range, termination. Every (pattern, pivot) TLC explored is then executed by the real code on "
             "four strides in dev and release builds and the observation is judged by TLC against the same PartitionOK predicate, so a "
             "code change that breaks the contract on any small pattern is caught deterministically. For every array length the cursor-safety, "
             "no-panic and arrangement clauses are proved with TLAPS on PartitionAlg, which TLC shows to be refined by the checked machine.",
        design_ref="DESIGN.md section 5, C15 and section 8.6", note=SORT_NOTE, technique="TLC model checking of a TLA+ transcription + behaviour replay + trace validation; TLAPS proof of the loop invariant for every length (refinement checked by TLC)"),
    "C02": dict(
        text="Select and Bulk are TLA+ state machines whose pivot draw is a nondeterministic choice, so TLC visits every pivot schedule "
             "for every pattern up to the bound and checks SelectOK/BulkOK, bag and window invariants and termination. Each complete "
             "behaviour (pattern, request, pivot sequence) is replayed into the real code through the scripted pivot hook, and all "
             "observations (also of long random lanes under real RNG and hostile pivot policies) are validated by TLC; logged pivots "
             "are additionally re-run through the transcription to detect drift. For every length, position and pivot sequence the window "
             "invariants, absence of panics and the arrangement clause are proved with TLAPS on SelectAlg and BulkAlg (refined by the checked machines).",
        design_ref="DESIGN.md section 5, C02 and section 8.6", note=SORT_NOTE + "The pivot hook is trusted to report the pivots actually used.",
        technique="TLC model checking over all pivot schedules + scripted-pivot replay + trace validation; TLAPS proof of the recursion invariant for every length (refinement checked by TLC)"),
    "C16": dict(
        text="The same state machines are explored with requests ranging over 0..n+1 and a usize::MAX token on lengths 0..N, with and "
             "without the debug assertions, checking 'panics iff out of range' under every pivot sequence; every such behaviour is "
             "replayed in a dev and in a release build of the real code and the outcome (ok / panic / abort / timeout) is judged by TLC.",
        design_ref="DESIGN.md section 5, C16", note=SORT_NOTE + "Outcome classification relies on catch_unwind; worker aborts/timeouts are reported as violations of their own kind.",
        technique="TLC model checking incl. out-of-range requests + replay in two build profiles + trace validation"),
}

GEN_NOTE = ("Trusted: TLC and its Json module; the harness' projections (named per property); ndarray's slicing/iteration used to build inputs and read results. "
            "Exhaustive only up to the stated bounds; beyond them randomized drivers sample. ")

META.update({
    "C01": dict(
        text="The per-lane quantile pipeline (validity check, index collection, bulk selection, interpolation) is a TLA+ state machine over a 4-bit "
             "machine integer type, model-checked against QuantileValueOK for every lane over a spaced value set (and the full 4-bit range for short "
             "lanes), every request on a rational grid and all five strategies (the signed-overflow defect F6 is a named action). Every model behaviour "
             "is replayed on i8 (also scaled so the overflow conditions coincide), u8, i64 and N64, and thousands of randomized n-D calls (layouts, "
             "axes, ulp-offset q values aimed at integral and half-integral positions, extremes of i8/u8, 2^k offsets, scripted pivots) are judged by "
             "TLC with the exact position computed from the bits of q.",
        design_ref="DESIGN.md section 5, C01", note=GEN_NOTE + "Values enter as exact small integers relative to a power-of-two base; Linear/Midpoint judged within one unit (ints) or 2^-10 (N64).",
        technique=TECH),
    "C03": dict(
        text="Bag preservation and cursor safety are invariants of the fine-grained Partition and RemoveNan models in every state; on the real code the "
             "parent buffer is recorded before and after every mutating routine on offset / stepped / reversed / permuted views and TLC checks that each "
             "lane keeps its multiset and every cell outside the view is unchanged (also on panicking out-of-range calls).",
        design_ref="DESIGN.md section 5, C03", note=GEN_NOTE + "Address projection: (as_ptr - base)/size, shape and strides as reported by ndarray.", technique=TECH),
    "C04": dict(
        text="The two-pointer compaction and the cast to the NotNan type are a fine-grained TLA+ machine over a memory model (parent buffer, view = ptr/len/"
             "stride); TLC checks RemoveNanOK, frame and loop invariants, idempotence and termination for every missing-pattern up to length 6/8, strides "
             "-3..3 and offsets, for both element kinds. Every pattern is replayed for the element types (all 14 in the thorough tier) and the returned "
             "view's pointer, length and stride are judged by TLC; lanes of n-D arrays are covered through map_axis_skipnan_mut; the call is repeated to "
             "check determinism and idempotence. For every lane length the loop invariant and 'the returned prefix is exactly the non-missing part' are "
             "proved with TLAPS on RemoveNanAlg (refined by the checked machine).",
        design_ref="DESIGN.md section 5, C04 and section 8.6", note=GEN_NOTE + "Contents are read back through the parent buffer, never through the NotNan-typed view; UB itself is not observed (a worker abort is an outcome).", technique=TECH),
    "C05": dict(
        text="The extremum scans are a TLA+ state machine (seed with the first element, compare every element through a partial order that fails on NaN); "
             "TLC checks the scan invariant and ArgOK/ValOK for every sequence of length <= 5/6 over ranks {NaN,1,2,3}. Each sequence is laid out as every "
             "factorisation of its length (0-D, 4-D and zero-length axes included) in C/F/sliced/permuted layouts for i32/f32/f64 and judged by TLC.",
        design_ref="DESIGN.md section 5, C05", note=GEN_NOTE + "Rank projection (NaN = 0, -0.0/0.0 one rank, infinities extreme ranks).", technique=TECH),
    "C06": dict(
        text="Exact rational definitions (NumOps) are the oracle: the real routines are run on exactly representable grid data (small integers / 4 plus "
             "power-of-two offsets, weights in independent layouts, every axis) and TLC compares round(res * 2^qe) with the exact value by cross-"
             "multiplication; integer element types are compared exactly. The Summary model checks the shift lemma that justifies judging offset data "
             "with small integers.",
        design_ref="DESIGN.md section 5, C06 and section 7", note=GEN_NOTE + "Decided at a quantum (2^-14 f64, 2^-8 f32), not at roundoff level: precision-only regressions below the quantum are invisible (DESIGN.md section 7).", technique=TECH),
    "C07": dict(
        text="TLC checks the algebra of the kernels on exact integers (binomial recombination of shifted raw moments for every residual shift, West's loop "
             "invariant including zero weights, shift lemma); the real routines are judged against the exact rational values on grid data with offsets to "
             "2^45 (moments) / 2^20 (variance), zero weights, ddof in {0, 1/2, 1}, orders 0..8, skewness/kurtosis in cross-multiplied form.",
        design_ref="DESIGN.md section 5, C07 and section 7", note=GEN_NOTE + "Quantum 2^-16 .. 2^-6 depending on the order (exact numerators must fit 31 bits); roundoff-level constants are not decided.", technique=TECH),
    "C08": dict(
        text="cov is compared with the exact rational value, pearson through r^2 var_i var_j = cov_ij^2 with the sign of cov_ij, plus symmetry, diagonal, "
             "range and the metamorphic laws (scaling a variable by 2^s with |s| up to 400 plus a shift leaves it unchanged, negation flips a row and "
             "column), all evaluated by TLC on observations of the real code in C/F/sliced/transposed layouts.",
        design_ref="DESIGN.md section 5, C08", note=GEN_NOTE + "Quantum 2^-6 for the squared identity (31-bit numerators); roundoff-level bounds are not decided.", technique=TECH),
    "C09": dict(
        text="Counts and distances are exact integers for i32/i64/BigInt and exact after scaling for quarter-grid floats, so TLC compares them for equality "
             "with the definitions; derived measures through their defining functions (squares, /n, exact points of the PSNR); symmetry and zero on "
             "identical arguments from swapped / duplicated calls; operands in independently chosen layouts.",
        design_ref="DESIGN.md section 5, C09", note=GEN_NOTE + "log10 is judged only at exact points.", technique=TECH),
    "C10": dict(
        text="Dyadic distributions make p ln p a table lookup: TLC evaluates the definitions through round(ln k * 2^20) and checks the observed values, "
             "the identities (KL(p,p) = 0, H(p,q) = H(p) + KL, KL >= 0, H <= ln n) and the exact NaN / infinity behaviour, including a NaN of q under a "
             "zero of p, for p and q in different layouts.",
        design_ref="DESIGN.md section 5, C10", note=GEN_NOTE + "Tolerance (n+2) * 2^-18; accuracy of ln beyond that is not decided.", technique=TECH),
    "C11": dict(
        text="Histogram is a TLA+ state machine (New, Add, AddRejected) explored by TLC for every grid over small edge domains (zero-bin axes included) "
             "and every history to depth 4/5 with the invariant counts = #observations per cell in every state. Every history TLC emits is replayed on real "
             "Histogram objects; the trace validator carries the specification state and checks every add_observation step and the invariant against the "
             "whole history; the matrix form is checked for row-major, column-major and sliced matrices.",
        design_ref="DESIGN.md section 5, C11", note=GEN_NOTE + "Values are small integers mapped monotonically to i32/u8/i64/N64.", technique=TECH + " (stateful: the trace spec reuses the design spec's AddResult)"),
    "C12": dict(
        text="EquiSpaced::n_bins/build are a TLA+ machine instantiated over the integers and over MiniFloat(P) (round-to-nearest-even binary floats "
             "built from TLC integers): cover, equal width and termination are model-checked, and the regress configuration exhibits the two float "
             "defects of the pinned commit. Real strategies (all five, ints and N64 incl. 0.3+0.1k, 1e9+0.001k, 1e16+2k, heavy ties) are judged by TLC on the "
             "bins built in doubled-rank space, plus a histogram over a GridBuilder grid.",
        design_ref="DESIGN.md section 5, C12", note=GEN_NOTE + "MiniFloat is a design-level argument about the algorithm, not about f64; the f64 statement comes from the conformance runs. Bin-count formulas are not re-derived.", technique=TECH),
    "C13": dict(
        text="TLC enumerates every edge input sequence up to the bound (duplicates and every order) and checks that the transcribed five-way match of "
             "indices_of equals the left-closed right-open lookup, plus the accessor equations; every sequence is replayed for i32/u8/N64 from Vec and "
             "from (sliced) owned arrays and all accessors of Edges, Bins and Grid are compared with the specification.",
        design_ref="DESIGN.md section 5, C13", note=GEN_NOTE, technique=TECH),
    "C14": dict(
        text="Every skip form is specified as the plain form on the filtered sequence (MinMaxOps); TLC checks the skip-scan machine against it and "
             "judges the real min/max/argmin/argmax_skipnan, the folds and visits (through recording closures, every axis) and "
             "quantile_axis_skipnan_mut (QuantileValueOK on the kept elements, missing value for an empty lane).",
        design_ref="DESIGN.md section 5, C14", note=GEN_NOTE, technique=TECH),
    "C17": dict(
        text="The error behaviour is a decision table in TLA+ (module Errors): TLC enumerates all rows, checks that the transcribed guard order of each "
             "routine class agrees with the documented outcome, and every row is executed by every routine of the class; variant and payload are judged "
             "by TLC.",
        design_ref="DESIGN.md section 5, C17", note=GEN_NOTE + "cov is a known finding (F7).", technique=TECH),
    "C18": dict(
        text="At model level the single forms are the bulk forms on one-element requests (BulkEqSingle invariant); on the real code paired calls on clones "
             "of the same input are compared item by item by TLC: quantiles vs quantile, bulk vs single selection, central_moments(p)[k] vs "
             "central_moment(k) and per-axis weighted statistics vs the whole-array routine per lane (bit projection).",
        design_ref="DESIGN.md section 5, C18", note=GEN_NOTE + "Bit identity is required for the moment pair and the per-axis family as observed on the current code.", technique=TECH),
    "C19": dict(
        text="Groups of calls on one lane (five strategies x a dense ascending q grid around every breakpoint, a permuted copy, a relabelled copy) are "
             "checked by TLC against the order laws in doubled-rank space - no value oracle; the same laws hold as invariants of the Quantile model.",
        design_ref="DESIGN.md section 5, C19", note=GEN_NOTE + "Where a breakpoint lies within the rounding error of the f64 position the affected law is not applied; beyond 2^53 only Linear's exact points are required.", technique=TECH),
    "C20": dict(
        text="A TLA+ memory model of ndarray views (Layout) is model-checked (no aliasing, lanes partition the view) and bound to ndarray by comparing "
             "predicted and observed geometry; 52 public routines are evaluated on seven representations of each logical array and TLC checks that the "
             "results are identical (order-based / integer), equal at the quantum (float sums) or designate an extremal element (index forms).",
        design_ref="DESIGN.md section 5, C20", note=GEN_NOTE, technique=TECH),
})
