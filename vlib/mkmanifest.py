"""Regenerates MANIFEST.json from plans.META (run: python3 -m vlib.mkmanifest)."""
import json, os, sys
sys.path.insert(0, os.path.dirname(os.path.dirname(os.path.abspath(__file__))))
from vlib import plans

ROOT = os.path.dirname(os.path.dirname(os.path.abspath(__file__)))
props = [json.loads(l) for l in open(os.path.join(ROOT, "properties.jsonl"))]

checks = []
na = []
for p in props:
    pid = p["id"]
    if pid in plans.PLANS and pid in plans.META:
        m = plans.META[pid]
        checks.append(dict(
            property_id=pid,
            quick_cmd="./check %s quick" % pid,
            thorough_cmd="./check %s thorough" % pid,
            evidence_file="evidence/%s.json" % pid,
            replay_cmd_template="./check %s --replay {path}" % pid,
            engine="tlc-conformance",
            level_claimed=dict(category="model_checking", text=m["text"], design_ref=m["design_ref"]),
            level_note=m["note"],
            technique=m["technique"],
        ))
    else:
        na.append(dict(property_id=pid, reason=plans.NOT_CLAIMED.get(pid, "check not built yet in this session (planned in DESIGN.md section 5); nothing is claimed for it")))

manifest = dict(
    version=1,
    setup_cmd="./check --setup",
    hooks=dict(
        guard="ndarray_stats_verif",
        enable="rustc --cfg ndarray_stats_verif, set in harness/.cargo/config.toml (build.rustflags); the harness depends on /repo by path, so every check rebuilds the library from /repo's working tree with the hook compiled in",
        baseline_off_cmd="cd /repo && cargo test --workspace --no-fail-fast --offline",
        source_commits=plans.HOOK_COMMITS,
        add_only=True,
    ),
    engines=[dict(name="tlc-conformance", path="check",
                  serves_properties=[c["property_id"] for c in checks],
                  kind_free_text="explicit TLA+ specification (spec/*.tla) model-checked with TLC; behaviours emitted by TLC are replayed into the real code through a Rust harness (harness/), and the recorded observations are validated by TLC against Trace_* specifications that reuse the design spec's predicates and actions")],
    checks=checks,
    notes="Verdicts come only from TLA+ predicates evaluated by TLC (python and Rust layers hold no property logic). DRIFT lines are informational (exit 0). Known findings: known_findings.json.",
    not_applicable=na,
)
json.dump(manifest, open(os.path.join(ROOT, "MANIFEST.json"), "w"), indent=1)
print("MANIFEST.json: %d checks, %d not claimed" % (len(checks), len(na)))
