#!/usr/bin/env python3
"""Prints the markdown table of seeded changes (seeded/*/meta.json + first line of the notes)."""
import glob, json, os, re
ROOT = os.path.dirname(os.path.dirname(os.path.abspath(__file__)))
SUMM = json.load(open(os.path.join(ROOT, "seeded", "summaries.json"))) if os.path.exists(os.path.join(ROOT, "seeded", "summaries.json")) else {}
print("| seeded change | what it does / what it needs to manifest | detected by (quick tier) | missed by |")
print("|---|---|---|---|")
for d in sorted(glob.glob(os.path.join(ROOT, "seeded", "*"))):
    mp = os.path.join(d, "meta.json")
    if not os.path.exists(mp):
        continue
    m = json.load(open(mp))
    summ = SUMM.get(os.path.basename(d)) or m.get("summary", "")
    det = m.get("detected_by") or {}
    hit = ", ".join(k for k, v in sorted(det.items()) if v.startswith("detected"))
    miss = ", ".join(k for k, v in sorted(det.items()) if v.startswith("missed"))
    print("| %s | %s | %s | %s |" % (os.path.basename(d), summ, hit or "-", miss or "-"))
