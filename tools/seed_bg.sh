#!/bin/bash
# Runs seeded changes against the committed /verif in a private copy (own clone of /repo), so that
# /repo and /verif stay free for other work:   tools/seed_bg.sh <log> <seed[:prop,prop]> ...
LOG=$1; shift
W=/tmp/seedbg.$$
rm -rf $W; mkdir -p $W
git clone -q /repo $W/repo
mkdir -p $W/verif && git -C /verif archive HEAD | tar -x -C $W/verif
sed -i "s#path = \"/repo\"#path = \"$W/repo\"#" $W/verif/harness/Cargo.toml
cd $W/verif
for item in "$@"; do
  seed=${item%%:*}; props=""
  if [[ "$item" == *:* ]]; then props=$(echo ${item#*:} | tr ',' ' '); fi
  VERIF_REPO=$W/repo SEEDED_DIR=/verif/seeded tools/run_seeded.py $seed $props >> $LOG 2>&1
done
echo "DONE" >> $LOG
rm -rf $W
