#!/bin/bash
# Runs every quick check under several seeds on the unchanged tree; any exit != 0 is a false alarm or tool error to triage.
# usage: tools/seed_sweep.sh <first-seed> <last-seed> [tier]
A=$1; B=$2; TIER=${3:-quick}
for sd in $(seq $A $B); do
  for p in C01 C02 C03 C04 C05 C06 C07 C08 C09 C10 C11 C12 C13 C14 C15 C16 C17 C18 C19 C20; do
    VERIF_SEED=$sd ./check $p $TIER > sweep_${p}_$sd.log 2>&1; rc=$?
    if [ $rc -ne 0 ]; then echo "seed=$sd $p rc=$rc"; grep -E "VIOLATION|TOOL-ERROR" sweep_${p}_$sd.log | head -3; mkdir -p sweep_fail; cp -r work/replays sweep_fail/${p}_$sd 2>/dev/null; else rm -f sweep_${p}_$sd.log; fi
  done
  echo "seed $sd done"
done
