#!/usr/bin/env python3
"""Assembles DESIGN.md from docs/parts/*.md and the seeded-change table."""
import glob, os, subprocess
ROOT = os.path.dirname(os.path.dirname(os.path.abspath(__file__)))
table = subprocess.run([os.path.join(ROOT, "tools", "seed_table.py")], capture_output=True, text=True).stdout
text = "".join(open(p).read() for p in sorted(glob.glob(os.path.join(ROOT, "docs", "parts", "*.md"))))
open(os.path.join(ROOT, "DESIGN.md"), "w").write(text.replace("@@SEED_TABLE@@", table))
print("DESIGN.md written (%d lines)" % text.count("\n"))
