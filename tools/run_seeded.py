#!/usr/bin/env python3
"""Applies a seeded change to /repo, runs the given checks (quick tier), reverts /repo.
   tools/run_seeded.py <seeded-dir-name> [prop ...]     (default: the property it was seeded for)
Records the outcome in seeded/<name>/meta.json (detected_by)."""
import json, os, subprocess, sys
ROOT = os.path.dirname(os.path.dirname(os.path.abspath(__file__)))
name = sys.argv[1]
REPO = os.environ.get("VERIF_REPO", "/repo")
d = os.path.join(os.environ.get("SEEDED_DIR", os.path.join(ROOT, "seeded")), name)
meta = json.load(open(os.path.join(d, "meta.json")))
props = sys.argv[2:] or [meta["property"]]
tier = os.environ.get("TIER", "quick")
st = subprocess.run(["git", "-C", REPO, "status", "--porcelain", "--untracked-files=no"], capture_output=True, text=True).stdout.strip()
if st:
    print("refusing: %s has local modifications" % REPO); sys.exit(2)
r = subprocess.run(["git", "-C", REPO, "apply", os.path.join(d, "patch.diff")])
if r.returncode != 0:
    print("patch does not apply"); sys.exit(2)
res = {}
try:
    for p in props:
        out = subprocess.run([os.path.join(ROOT, "check"), p, tier], cwd=ROOT, capture_output=True, text=True)
        viol = [l for l in out.stdout.splitlines() if l.startswith("VIOLATION")]
        res[p] = {"exit": out.returncode, "violations": len(viol)}
        tail = [l for l in out.stdout.splitlines() if ("stage" in l or "TOOL-ERROR" in l or l.startswith(p))]
        print("%s on %s: exit %d, %d VIOLATION lines" % (p, name, out.returncode, len(viol)))
        for l in tail[-6:]:
            print("    " + l[:200])
finally:
    subprocess.run(["git", "-C", REPO, "checkout", "--", "."])
    # the evidence files describe runs against the unchanged tree: put back what the mutated run overwrote
    if os.path.isdir(os.path.join(ROOT, ".git")):
        subprocess.run(["git", "-C", ROOT, "checkout", "--"] + ["evidence/%s.json" % p for p in props])
det = meta.get("detected_by") or {}
det.update({p: ("detected" if v["exit"] == 1 else "missed" if v["exit"] == 0 else "tool-error") + " (%s tier)" % tier for p, v in res.items()})
meta["detected_by"] = det
json.dump(meta, open(os.path.join(d, "meta.json"), "w"), indent=1)
