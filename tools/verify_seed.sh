#!/bin/bash
# Confirms a seeded change: verify_seed.sh <worktree> <prop-id> <A|B>
# In the scratch worktree (moved to /repo's current main): existing suite passes with the patch,
# demo fails with the patch, demo passes without it.  On success copies patch, demo and meta.json
# to /verif/seeded/<id>_<X>/.
set -u
WT=$1; ID=$2; X=$3
M=$WT/MUTANT_$X
OUT=/verif/seeded/${ID}_$X
cd $WT || exit 2
git checkout -q -- . 2>/dev/null
git checkout -q --detach main 2>/dev/null || { echo "$ID $X: cannot move worktree to main"; exit 2; }
rm -f tests/demo_*.rs
git apply --check $M/patch.diff 2>/dev/null || { echo "$ID $X: patch does not apply to main"; exit 3; }
git apply $M/patch.diff
suite=$(cargo test --workspace --no-fail-fast --offline 2>&1 | grep -E "^test result" | awk '{p+=$4; f+=$6} END {print p" "f}')
cp $M/demo_${ID}_$X.rs tests/
demo_with=$(cargo test --offline --test demo_${ID}_$X 2>&1 | grep -E "^test result" | awk '{p+=$4; f+=$6} END {print p" "f}')
git checkout -q -- src Cargo.toml
demo_without=$(cargo test --offline --test demo_${ID}_$X 2>&1 | grep -E "^test result" | awk '{p+=$4; f+=$6} END {print p" "f}')
rm -f tests/demo_${ID}_$X.rs
sp=${suite% *}; sf=${suite#* }
wf=${demo_with#* }; of=${demo_without#* }; op=${demo_without% *}
status=rejected
if [ "${sf:-1}" = "0" ] && [ "${sp:-0}" -ge 140 ] && [ "${wf:-0}" -ge 1 ] && [ "${of:-1}" = "0" ] && [ "${op:-0}" -ge 1 ]; then status=confirmed; fi
echo "$ID $X: suite(pass fail)=$suite demo_with=$demo_with demo_without=$demo_without => $status"
if [ $status = confirmed ]; then
  mkdir -p $OUT
  cp $M/patch.diff $OUT/patch.diff
  cp $M/demo_${ID}_$X.rs $OUT/
  cp $M/notes.md $OUT/notes.md 2>/dev/null
  python3 - "$ID" "$X" "$suite" "$demo_with" "$demo_without" "$OUT" <<'PY'
import json,sys,subprocess
ID,X,suite,dw,dwo,out=sys.argv[1:7]
notes=open(out+'/notes.md').read() if __import__('os').path.exists(out+'/notes.md') else ''
head=subprocess.run(['git','-C','/repo','rev-parse','--short','main'],capture_output=True,text=True).stdout.strip()
json.dump({"property":ID,"variant":X,"breaks":ID,
 "needs_to_manifest":"see notes.md (written by the independent sub-agent that produced the change)",
 "confirmed_on_repo_commit":head,
 "ran":["git apply patch.diff (scratch worktree at /repo main)","cargo test --workspace --no-fail-fast --offline  -> pass/fail = "+suite,
        "cargo test --offline --test demo_%s_%s with patch -> pass/fail = %s"%(ID,X,dw),"same demo without patch -> pass/fail = "+dwo],
 "detected_by":None}, open(out+'/meta.json','w'), indent=1)
PY
fi
